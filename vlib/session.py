"""Drives the real `chessplusplus` binary (sanitizer flavour of the working tree) over pipes."""
import json
import os
import queue
import re
import subprocess
import tempfile
import threading
import time

from . import core


class Proc:
    def __init__(self, argv, env):
        self.errf = tempfile.TemporaryFile()
        self.p = subprocess.Popen(argv, stdin=subprocess.PIPE, stdout=subprocess.PIPE, stderr=self.errf, env=env,
                                  start_new_session=True)
        self.q = queue.Queue()
        self.lines = []
        self.t = threading.Thread(target=self._reader, daemon=True)
        self.t.start()

    def _reader(self):
        try:
            for raw in self.p.stdout:
                self.q.put(raw.decode("utf-8", "replace").rstrip("\n"))
        except Exception:
            pass
        self.q.put(None)

    def send(self, line):
        try:
            self.p.stdin.write((line + "\n").encode())
            self.p.stdin.flush()
            return True
        except (BrokenPipeError, OSError):
            return False

    def read_until(self, pred, timeout):
        """Collect lines until pred(line) is true. Returns (lines, matched, eof)."""
        got = []
        end = time.time() + timeout
        while True:
            left = end - time.time()
            if left <= 0:
                return got, False, False
            try:
                ln = self.q.get(timeout=left)
            except queue.Empty:
                return got, False, False
            if ln is None:
                return got, False, True
            got.append(ln)
            self.lines.append(ln)
            if pred(ln):
                return got, True, False

    def drain(self, wait=0.0):
        got = []
        end = time.time() + wait
        while True:
            try:
                ln = self.q.get(timeout=max(0.0, end - time.time()) if wait else 0.0)
            except queue.Empty:
                break
            if ln is None:
                break
            got.append(ln)
            self.lines.append(ln)
        return got

    def finish(self, timeout):
        try:
            self.p.stdin.close()
        except Exception:
            pass
        try:
            rc = self.p.wait(timeout)
            hung = False
        except subprocess.TimeoutExpired:
            hung = True
            try:
                os.killpg(self.p.pid, 9)
            except OSError:
                pass
            rc = self.p.wait()
        self.errf.seek(0)
        err = self.errf.read().decode("utf-8", "replace")
        self.errf.close()
        return rc, err, hung


def run_session(exe, session, env=None, wrapper=None, go_timeout=120, slow=1.0):
    """Execute one generated session. Returns a dict with everything observed."""
    argv = (wrapper or []) + [exe]
    pr = Proc(argv, env or core.base_env())
    res = {"tag": session["tag"], "gos": [], "boards": [], "perfts": [], "problems": [], "cmds": []}
    t_start = time.time()
    dead = False
    bookpath = None
    bookpaths = []
    for st in session["steps"]:
        kind = st[0]
        if dead:
            break
        if kind == "bookfile":
            fd, bookpath = tempfile.mkstemp(prefix="verif-book-", suffix=".bin")
            bookpaths.append(bookpath)
            os.write(fd, bytes.fromhex(st[1]))
            os.close(fd)
        elif kind == "send":
            line = st[1].replace("@BOOK@", bookpath or "")
            res["cmds"].append(line)
            if not pr.send(line):
                dead = True
        elif kind == "sync":
            res["cmds"].append("isready")
            pr.send("isready")
            _, ok, eof = pr.read_until(lambda l: l.strip() == "readyok", 60 * slow)
            if not ok:
                res["problems"].append("no-readyok-at-sync")
                dead = True
        elif kind == "go":
            _, cmd, stop_ms, fen, legal, depth, sm, isready_during = st
            res["cmds"].append(cmd)
            g = {"cmd": cmd, "fen": fen, "legal": legal, "depth": depth, "sm": sm, "stop_ms": stop_ms, "out": [],
                 "readyok_during": None, "stop_latency": None, "answered": False}
            t0 = time.time()
            pr.send(cmd)
            out = []
            if isready_during and stop_ms >= 0 and "infinite" in cmd:
                # the search cannot end on its own: readyok must arrive while it is running
                pr.send("isready")
                res["cmds"].append("isready")
                lines, ok, eof = pr.read_until(lambda l: l.strip() == "readyok" or l.startswith("bestmove"), 30 * slow)
                out += lines
                g["readyok_during"] = bool(ok and lines and lines[-1].strip() == "readyok")
            elif isready_during:
                pr.send("isready")
                res["cmds"].append("isready")
            if stop_ms >= 0:
                time.sleep(stop_ms / 1000.0)
                t_stop = time.time()
                pr.send("stop")
                res["cmds"].append("stop")
            else:
                t_stop = None
            if not any(l.startswith("bestmove") for l in out):
                lines, ok, eof = pr.read_until(lambda l: l.startswith("bestmove"), go_timeout * slow)
                out += lines
            else:
                ok = True
            g["answered"] = bool(ok)
            if ok and t_stop is not None:
                g["stop_latency"] = time.time() - t_stop
            g["wall"] = time.time() - t0
            if isready_during and not (stop_ms >= 0 and "infinite" in cmd):
                # collect the readyok that belongs to this go
                if not any(l.strip() == "readyok" for l in out):
                    lines, ok2, _ = pr.read_until(lambda l: l.strip() == "readyok", 30 * slow)
                    out += lines
                    g["readyok_during"] = None if ok2 else False
            g["out"] = out
            res["gos"].append(g)
            if not g["answered"]:
                res["problems"].append("no-bestmove")
                dead = True
        elif kind == "board":
            res["cmds"].append("printboard")
            pr.send("printboard")
            pr.send("isready")
            lines, ok, eof = pr.read_until(lambda l: l.strip() == "readyok", 60 * slow)
            got = None
            for l in lines:
                m = re.search(r'Fen: "(.*)"', l)
                if m:
                    got = m.group(1).strip()
            res["boards"].append((st[1], got))
            if not ok:
                dead = True
        elif kind == "eval":
            # staticeval on the reader thread (possibly while a search runs): the line "Score: cp N" / "Score: mate N"
            res["cmds"].append("staticeval")
            pr.send("staticeval")
            lines, ok, eof = pr.read_until(lambda l: l.startswith("Score:"), 60 * slow)
            res.setdefault("evals", []).append({"fen": st[1], "truth_win": bool(st[2]), "strong_to_move": bool(st[3]),
                                                "line": lines[-1] if ok else None})
            if not ok:
                dead = True
        elif kind == "waitbest":
            lines, ok, eof = pr.read_until(lambda l: l.startswith("bestmove"), go_timeout * slow)
            if not ok:
                res["problems"].append("no-bestmove")
                dead = True
        elif kind == "perft":
            res["cmds"].append("perft %d" % st[1])
            pr.send("perft %d" % st[1])
            lines, ok, eof = pr.read_until(lambda l: l.startswith("Speed:"), 120 * slow)
            n = None
            for l in lines:
                m = re.match(r"Number of nodes: (\d+)", l)
                if m:
                    n = int(m.group(1))
            res["perfts"].append((st[1], st[2], n))
            if not ok:
                dead = True
    extra = pr.drain(0.05)
    res["aborted"] = dead
    if dead:
        # the session could not be completed (e.g. no bestmove): do not "quit" under a running search,
        # that would be an ill-formed session of our own making
        try:
            os.killpg(pr.p.pid, 9)
        except OSError:
            pass
    rc, err, hung = pr.finish(60 * slow)
    res["extra_bestmoves"] = sum(1 for l in extra if l.startswith("bestmove"))
    res["rc"], res["stderr"], res["hung_on_quit"] = rc, err, hung
    res["wall"] = time.time() - t_start
    res["all_bestmoves"] = sum(1 for l in pr.lines if l.startswith("bestmove"))
    for bp in bookpaths:
        try:
            os.remove(bp)
        except OSError:
            pass
    return res


def gen_sessions(kind, seed, count, first=0):
    exe = core.ensure_monitor("rel", "session_tool")
    r = core.run([exe, "gen", "--kind", kind, "--seed", str(seed), "--count", str(count), "--first", str(first)])
    if r.returncode != 0:
        raise core.HarnessError("session generator failed: " + r.stderr[-500:])
    return [json.loads(l) for l in r.stdout.splitlines() if l.startswith("{")]


def judge(prop, results, table="uci-session", budget=200000):
    """Feed the go transcripts of finished sessions to the oracle-side judge."""
    exe = core.ensure_monitor("rel", "session_tool")
    buf = []
    for res in results:
        for g in res["gos"]:
            if not g["answered"]:
                continue
            lim = g["cmd"] + (" [stop after %d ms]" % g["stop_ms"] if g["stop_ms"] >= 0 else "")
            buf += ["GO", "FEN " + g["fen"], "LIMITS " + lim, "TABLE " + table, "DEPTH %d" % g["depth"], "SM " + " ".join(g["sm"]),
                    "OUT"] + [l for l in g["out"] if l.startswith("info") or l.startswith("bestmove")] + ["END"]
    w = core.run_one([exe, "judge", "--prop", prop, "--budget", str(budget)], 1200, stdin_data="\n".join(buf) + "\n")
    return w
