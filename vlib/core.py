"""Orchestrator core for /verif: build cache, worker fan-out, sanitizer log parsing,
known-findings matching, evidence writer.  python3 stdlib only."""
import concurrent.futures as cf
import fcntl
import fnmatch
import glob
import hashlib
import json
import os
import re
import shutil
import signal
import subprocess
import sys
import time

ROOT = os.path.dirname(os.path.dirname(os.path.abspath(__file__)))
REPO = os.environ.get("VERIF_REPO", "/repo")
BUILD = os.path.join(ROOT, ".build")
NCPU = int(os.environ.get("VERIF_JOBS", "16"))
GUARD = "CHESSPP_VERIF"
CXX = "g++"
T0 = time.time()  # process start: wall_s in the evidence covers builds and every sub-run

COMMON = ["-std=c++20", "-DLOG_LEVEL=0", "-DNDEBUG", "-D" + GUARD, "-w"]
FLAVOURS = {
    "asan": ["-O1", "-g", "-fno-omit-frame-pointer", "-fsanitize=address,undefined",
             "-fsanitize-recover=undefined"],
    "tsan": ["-O1", "-g", "-fsanitize=thread"],
    "rel": ["-Ofast", "-march=native", "-mtune=native"],
    "vg": ["-O1", "-g"],
}
LINK = {
    "asan": ["-fsanitize=address,undefined", "-pthread"],
    "tsan": ["-fsanitize=thread", "-pthread"],
    "rel": ["-pthread"],
    "vg": ["-pthread"],
}


def log(*a):
    print(*a, file=sys.stderr, flush=True)


class HarnessError(Exception):
    """Inconclusive: the machinery itself failed (exit 2)."""


def run(cmd, **kw):
    return subprocess.run(cmd, stdout=subprocess.PIPE, stderr=subprocess.PIPE, text=True, **kw)


_cxx_version = None


def cxx_version():
    global _cxx_version
    if _cxx_version is None:
        _cxx_version = run([CXX, "--version"]).stdout.splitlines()[0]
    return _cxx_version


def sha_files(paths, extra=""):
    h = hashlib.sha256()
    h.update(extra.encode())
    for p in sorted(paths):
        h.update(p.encode())
        try:
            with open(p, "rb") as f:
                h.update(f.read())
        except OSError:
            h.update(b"<missing>")
    return h.hexdigest()[:16]


def engine_sources():
    return sorted(glob.glob(os.path.join(REPO, "engine", "*")))


def engine_hash(flavour):
    return sha_files(engine_sources() + [os.path.join(REPO, "CMakeLists.txt")],
                     flavour + " ".join(COMMON + FLAVOURS[flavour]) + cxx_version())


class Locked:
    def __init__(self, name):
        os.makedirs(BUILD, exist_ok=True)
        self.path = os.path.join(BUILD, name + ".lock")

    def __enter__(self):
        self.f = open(self.path, "w")
        fcntl.flock(self.f, fcntl.LOCK_EX)
        return self

    def __exit__(self, *a):
        fcntl.flock(self.f, fcntl.LOCK_UN)
        self.f.close()


def _compile_many(jobs):
    """jobs: list of (cmd, label). Parallel; raises HarnessError with compiler output on failure."""
    def one(job):
        cmd, label = job
        r = run(cmd)
        return label, r.returncode, r.stderr
    with cf.ThreadPoolExecutor(NCPU) as ex:
        res = list(ex.map(one, jobs))
    bad = [(l, e) for l, rc, e in res if rc != 0]
    if bad:
        msg = "\n".join("%s:\n%s" % (l, e[-3000:]) for l, e in bad[:3])
        raise HarnessError("compile failed (harness does not build against the tree):\n" + msg)


def project_version():
    try:
        s = open(os.path.join(REPO, "CMakeLists.txt")).read()
        m = re.search(r"project\(\s*(\w+)\s+VERSION\s+([\d.]+)", s)
        return m.group(1), m.group(2)
    except Exception:
        return "chessplusplus", "0"


def ensure_engine(flavour):
    """Compile /repo/engine/*.cpp (working tree) for a flavour; returns build dir."""
    h = engine_hash(flavour)
    d = os.path.join(BUILD, "%s-%s" % (flavour, h))
    stamp = os.path.join(d, "engine.ok")
    with Locked(flavour):
        if os.path.exists(stamp):
            return d
        # drop stale builds of this flavour
        for old in glob.glob(os.path.join(BUILD, flavour + "-*")):
            if old != d:
                shutil.rmtree(old, ignore_errors=True)
        t0 = time.time()
        os.makedirs(os.path.join(d, "engine"), exist_ok=True)
        os.makedirs(os.path.join(d, "cfg"), exist_ok=True)
        name, ver = project_version()
        parts = (ver.split(".") + ["0", "0", "0", "0"])[:4]
        with open(os.path.join(d, "cfg", "chessplusplusConfig.h"), "w") as f:
            f.write('#define ENGINE_NAME "%s"\n#define CHESSPLUSPLUS_VERSION "%s"\n' % (name, ver))
            for n, v in zip(["MAJOR", "MINOR", "PATCH", "TWEAK"], parts):
                f.write("#define CHESSPLUSPLUS_%s %s\n" % (n, v))
        jobs = []
        for src in glob.glob(os.path.join(REPO, "engine", "*.cpp")):
            obj = os.path.join(d, "engine", os.path.basename(src)[:-4] + ".o")
            cmd = [CXX] + COMMON + FLAVOURS[flavour] + ["-I", os.path.join(REPO, "engine"), "-I",
                                                         os.path.join(d, "cfg"), "-c", src, "-o", obj]
            jobs.append((cmd, src))
        _compile_many(jobs)
        objs = [o for o in glob.glob(os.path.join(d, "engine", "*.o"))]
        r = run([CXX] + objs + LINK[flavour] + ["-o", os.path.join(d, "chessplusplus")])
        if r.returncode != 0:
            raise HarnessError("link of chessplusplus failed:\n" + r.stderr[-3000:])
        open(stamp, "w").write("ok\n")
        log("[build] engine flavour=%s hash=%s in %.1fs" % (flavour, h, time.time() - t0))
    return d


def engine_objs(d, with_main=False):
    objs = sorted(glob.glob(os.path.join(d, "engine", "*.o")))
    if not with_main:
        objs = [o for o in objs if os.path.basename(o) != "main.o"]
    return objs


ORACLE_SRC = ["chess.cpp", "kpk.cpp", "polyglot_spec.cpp"]


def ensure_monitor(flavour, name):
    """Build harness/<name>.cpp + oracle against the tree's objects. Returns exe path."""
    d = ensure_engine(flavour)
    srcs = [os.path.join(ROOT, "harness", name + ".cpp")] + [os.path.join(ROOT, "oracle", s) for s in ORACLE_SRC]
    deps = srcs + glob.glob(os.path.join(ROOT, "harness", "*.h")) + glob.glob(os.path.join(ROOT, "oracle", "*.h")) + \
        glob.glob(os.path.join(ROOT, "oracle", "*.inc"))
    h = sha_files(deps, flavour + "oracle-O2")
    mdir = os.path.join(d, "mon")
    exe = os.path.join(mdir, "%s-%s" % (name, h))
    with Locked(flavour + "-mon-" + name):
        if os.path.exists(exe):
            return exe
        os.makedirs(mdir, exist_ok=True)
        for old in glob.glob(os.path.join(mdir, name + "-*")):
            os.remove(old)
        t0 = time.time()
        odir = os.path.join(mdir, "obj-" + name)
        os.makedirs(odir, exist_ok=True)
        jobs = []
        objs = []
        for s in srcs:
            o = os.path.join(odir, os.path.basename(s)[:-4] + ".o")
            objs.append(o)
            flags = FLAVOURS[flavour]
            if os.path.dirname(s).endswith("oracle") and flavour in ("asan", "vg"):
                flags = ["-O2", "-g"]  # the trusted base itself is not the code under test; keep it fast
            cmd = [CXX] + COMMON + flags + ["-I", os.path.join(REPO, "engine"), "-I", os.path.join(d, "cfg"),
                                                         "-I", os.path.join(ROOT, "oracle"), "-I",
                                                         os.path.join(ROOT, "harness"), "-c", s, "-o", o]
            jobs.append((cmd, s))
        _compile_many(jobs)
        r = run([CXX] + objs + engine_objs(d) + LINK[flavour] + ["-rdynamic", "-ldl", "-o", exe + ".tmp"])
        if r.returncode != 0:
            raise HarnessError("link of monitor %s failed:\n%s" % (name, r.stderr[-3000:]))
        os.rename(exe + ".tmp", exe)
        shutil.rmtree(odir, ignore_errors=True)
        log("[build] monitor %s flavour=%s in %.1fs" % (name, flavour, time.time() - t0))
    return exe


def ensure_selftest():
    """Oracle self-test binary (independent of /repo)."""
    srcs = [os.path.join(ROOT, "oracle", s) for s in ORACLE_SRC + ["selftest.cpp"]]
    deps = srcs + glob.glob(os.path.join(ROOT, "oracle", "*.h")) + glob.glob(os.path.join(ROOT, "oracle", "*.inc"))
    h = sha_files(deps)
    os.makedirs(BUILD, exist_ok=True)
    exe = os.path.join(BUILD, "selftest-" + h)
    ok = exe + ".ok"
    with Locked("selftest"):
        if os.path.exists(ok):
            return
        for old in glob.glob(os.path.join(BUILD, "selftest-*")):
            os.remove(old)
        r = run([CXX, "-std=c++17", "-O2", "-w"] + srcs + ["-o", exe])
        if r.returncode != 0:
            raise HarnessError("oracle self-test does not compile:\n" + r.stderr[-3000:])
        r = run([exe, "--full"])
        if r.returncode != 0:
            raise HarnessError("oracle self-test FAILED:\n" + r.stderr[-3000:])
        open(ok, "w").write(r.stderr)
        log("[selftest] oracle ok")


# ----------------------------------------------------------------------------- running workers

ASAN_OPTS = "halt_on_error=1:abort_on_error=1:detect_leaks=0:handle_abort=0:allocator_may_return_null=1:detect_container_overflow=0"
UBSAN_OPTS = "print_stacktrace=1:halt_on_error=0"


def base_env(extra=None):
    env = dict(os.environ)
    env["ASAN_OPTIONS"] = ASAN_OPTS
    env["UBSAN_OPTIONS"] = UBSAN_OPTS
    env["TSAN_OPTIONS"] = "halt_on_error=0:second_deadlock_stack=1"
    if extra:
        env.update(extra)
    return env


class Worker:
    def __init__(self, argv, rc, out, err, wall, timed_out):
        self.argv, self.rc, self.out, self.err, self.wall, self.timed_out = argv, rc, out, err, wall, timed_out
        self.json = None
        for line in reversed(out.splitlines()):
            if line.startswith("{"):
                try:
                    self.json = json.loads(line)
                    break
                except ValueError:
                    pass


def run_one(argv, timeout, env=None, stdin_data=None, cwd=None):
    t0 = time.time()
    p = subprocess.Popen(argv, stdin=subprocess.PIPE if stdin_data is not None else subprocess.DEVNULL,
                         stdout=subprocess.PIPE, stderr=subprocess.PIPE, env=env or base_env(), cwd=cwd,
                         start_new_session=True)
    timed_out = False
    try:
        out, err = p.communicate(stdin_data.encode() if stdin_data is not None else None, timeout=timeout)
    except subprocess.TimeoutExpired:
        timed_out = True
        try:
            os.killpg(p.pid, signal.SIGKILL)
        except OSError:
            pass
        out, err = p.communicate()
    return Worker(argv, p.returncode, out.decode("utf-8", "replace"), err.decode("utf-8", "replace"),
                  time.time() - t0, timed_out)


def run_workers(argvs, timeout, env=None, jobs=None):
    with cf.ThreadPoolExecutor(jobs or NCPU) as ex:
        return list(ex.map(lambda a: run_one(a, timeout, env), argvs))


# ----------------------------------------------------------------------------- sanitizer parsing

def engine_frame(stack_text):
    """Innermost frame inside engine:: (function name only, template args and line numbers stripped)."""
    for line in stack_text.splitlines():
        m = re.search(r"#\d+ 0x[0-9a-f]+ in (.+?) (/\S+?)(:\d+)?(:\d+)?$", line.strip())
        if not m:
            m = re.search(r"#\d+ 0x[0-9a-f]+ in (.+?) \(", line.strip())
        if m and "engine::" in m.group(1):
            fn = m.group(1)
            fn = re.sub(r"<.*>", "", fn)
            fn = re.sub(r"\(.*$", "", fn)
            return fn.strip()
    return "?"


UBSAN_KIND = [
    (r"index -?\d+ out of bounds", "bounds"),
    (r"load of value \d+, which is not a valid value for type 'bool'", "bool"),
    (r"load of value \d+, which is not a valid value for type", "enum"),
    (r"null pointer|reference binding to null", "null"),
    (r"misaligned address", "alignment"),
    (r"pointer index expression|applying (non-)?zero offset|pointer overflow", "pointer-overflow"),
    (r"object-size|insufficient space for an object", "object-size"),
    (r"vptr|does not point to an object of type", "vptr"),
    (r"execution reached an unreachable|unreachable", "unreachable"),
    (r"reached the end of a value-returning function", "return"),
    (r"shift exponent|left shift of", "shift"),
    (r"signed integer overflow", "signed-overflow"),
    (r"outside the range of representable values", "float-cast"),
    (r"division by zero", "div-zero"),
    (r"negation of", "negation"),
]
UBSAN_MEMORY_KINDS = {"bounds", "bool", "enum", "null", "alignment", "pointer-overflow", "object-size", "vptr",
                      "unreachable", "return"}


def parse_sanitizer(err):
    """Returns list of dicts {tool, kind, frame, where, text}."""
    reps = []
    lines = err.splitlines()
    i = 0
    while i < len(lines):
        ln = lines[i]
        m = re.search(r"(\S+?):(\d+):(\d+): runtime error: (.*)", ln)
        if m:
            msg = m.group(4)
            kind = "other"
            for pat, k in UBSAN_KIND:
                if re.search(pat, msg):
                    kind = k
                    break
            j = i + 1
            stack = []
            while j < len(lines) and lines[j].strip().startswith("#"):
                stack.append(lines[j])
                j += 1
            where = os.path.basename(m.group(1))
            fr = engine_frame("\n".join(stack))
            reps.append({"tool": "ubsan", "kind": kind, "frame": fr, "where": where, "line": int(m.group(2)),
                         "text": ln.strip()[:300]})
            i = j
            continue
        m = re.search(r"ERROR: AddressSanitizer: (\S+)", ln)
        if m:
            kind = m.group(1)
            j = i + 1
            block = [ln]
            while j < len(lines) and not lines[j].startswith("SUMMARY: AddressSanitizer") and j - i < 200:
                block.append(lines[j])
                j += 1
            text = "\n".join(block)
            stack = [b for b in block if b.strip().startswith("#")]
            frame = engine_frame("\n".join(stack))
            # for stack / global overflows name the owner of the buffer, not the function that happened to write
            mo = re.search(r"in frame\s*\n\s*(#0 .*)", text)
            if mo:
                fr = engine_frame(mo.group(1))
                if fr != "?":
                    frame = "frame:" + fr
            mg = re.search(r"global variable '([^']+)'", text)
            if mg:
                frame = "global:" + mg.group(1)
            reps.append({"tool": "asan", "kind": kind, "frame": frame, "where": "",
                         "text": ln.strip()[:300] + " | " + " | ".join(x.strip() for x in stack[:6])})
            i = j
            continue
        m = re.search(r"VERIF-BOUND site=(\S+) index=(-?\d+) size=(-?\d+)", ln)
        if m:
            reps.append({"tool": "bound", "kind": "VERIF-BOUND", "frame": m.group(1), "where": m.group(1),
                         "text": ln.strip()})
        i += 1
    return reps


def parse_tsan(err):
    """Split ThreadSanitizer output into report blocks."""
    blocks = []
    cur = None
    for ln in err.splitlines():
        if "WARNING: ThreadSanitizer:" in ln:
            cur = [ln]
            blocks.append(cur)
        elif cur is not None:
            cur.append(ln)
            if ln.startswith("SUMMARY: ThreadSanitizer"):
                cur = None
    return ["\n".join(b) for b in blocks]


# ----------------------------------------------------------------------------- findings / evidence

def load_known():
    p = os.path.join(ROOT, "known_findings.json")
    try:
        return json.load(open(p)).get("findings", [])
    except (OSError, ValueError):
        return []


class Check:
    """One run of one property's check: collects observations, decides exit code, writes evidence."""

    def __init__(self, pid, tier, seed, level="exploration"):
        self.pid, self.tier, self.seed, self.level = pid, tier, seed, level
        self.t0 = time.time()
        self.viol = {}       # key -> {count, example}
        self.counters = {}
        self.samples = []
        self.evaluations = 0
        self.distinct = 0
        self.rule = ""
        self.assumptions = []
        self.extra = {}
        self.exhaustive = None
        self.inconclusive = []
        self.requirements = []  # (name, observed, minimum)

    # -- accumulation
    def add_counters(self, d):
        for k, v in (d or {}).items():
            if isinstance(v, (int, float)):
                if k.startswith("max-"):
                    self.counters[k] = max(self.counters.get(k, 0), v)
                else:
                    self.counters[k] = self.counters.get(k, 0) + v

    def add_violation(self, key, example, count=1):
        v = self.viol.setdefault(key, {"count": 0, "example": example})
        v["count"] += count

    def add_sample(self, s, cap=12):
        if len(self.samples) < cap:
            self.samples.append(s)

    def absorb(self, w, crash_prop_kinds=True, label=None):
        """Take one Worker result from an in-process monitor."""
        j = w.json
        if j is not None:
            self.evaluations += int(j.get("evaluations", 0))
            self.distinct += int(j.get("distinct", 0))
            self.add_counters(j.get("counters"))
            for s in j.get("samples", []):
                self.add_sample(s)
            for v in j.get("violations", []):
                self.add_violation(v["key"], v.get("example"), int(v.get("count", 1)))
        reps = parse_sanitizer(w.err)
        for r in reps:
            self.counters["sanitizer:%s:%s" % (r["tool"], r["kind"])] = \
                self.counters.get("sanitizer:%s:%s" % (r["tool"], r["kind"]), 0) + 1
        case = None
        m = re.search(r"VERIF-CASE: (.*)", w.err)
        if m:
            case = m.group(1).strip()
        if w.timed_out:
            self.inconclusive.append("worker timed out after %.0fs: %s" % (w.wall, " ".join(w.argv[-6:])))
            return
        if "VERIF-HANG" in w.err:
            self.add_violation("hang:inside-Search::go(no node visit for 60 s)", {"case": case, "argv": w.argv[1:]})
            return
        if j is None or w.rc != 0:
            # the engine crashed/aborted while computing an observation
            fatal = [r for r in reps if r["tool"] in ("asan", "bound")]
            if fatal:
                r = fatal[0]
                key = "crash:%s:%s@%s" % (r["tool"], r["kind"], r["frame"])
                ex = {"case": case, "report": r["text"], "argv": w.argv[1:]}
            else:
                sig = -w.rc if w.rc and w.rc < 0 else w.rc
                key = "crash:signal-%s" % sig
                ex = {"case": case, "stderr_tail": w.err[-600:], "argv": w.argv[1:]}
            if case is None and not fatal and j is None and "VERIF-HARNESS" in w.err:
                self.inconclusive.append("harness error: " + w.err[-400:])
                return
            self.add_violation(key, ex)

    def require(self, name, minimum):
        self.requirements.append((name, self.counters.get(name, 0), minimum))

    # -- verdict
    def finish(self):
        wall = time.time() - T0
        known = [k for k in load_known() if k.get("property") == self.pid]
        open_keys = [k for k in known if k.get("status") == "open"]
        new, kf = [], []
        for key, v in sorted(self.viol.items()):
            hit = None
            for k in open_keys:
                pat = k.get("key", "")
                if key == pat or (("*" in pat) and fnmatch.fnmatchcase(key, pat)):
                    hit = k
                    break
            (kf if hit else new).append((key, v, hit))
        for name, got, need in self.requirements:
            if got < need:
                self.inconclusive.append("too few observations: %s = %s < %s" % (name, got, need))
        cov = {
            "evaluations": int(self.evaluations),
            "distinct_nontrivial": int(self.distinct),
            "rule": self.rule,
            "samples": self.samples[:12] or ["<none>"],
            "counters": {k: self.counters[k] for k in sorted(self.counters)},
            "violation_keys": {k: v["count"] for k, v in self.viol.items()},
            "known_findings_seen": [k for k, _, _ in kf],
            "inconclusive": self.inconclusive,
            "minimum_observations": [{"counter": n, "observed": g, "required": r} for n, g, r in self.requirements],
        }
        if self.exhaustive is not None:
            cov["exhaustive"] = bool(self.exhaustive)
        cov.update(self.extra)
        ev = {
            "property_id": self.pid, "tier": self.tier, "seed": int(self.seed), "level": self.level,
            "coverage": cov, "assumptions": self.assumptions, "wall_s": round(wall, 2),
            "violations": len(new),
        }
        os.makedirs(os.path.join(ROOT, "evidence"), exist_ok=True)
        suffix = os.environ.get("VERIF_EVIDENCE_SUFFIX", "")  # maintainer runs against seeded changes keep the real evidence
        tmp = os.path.join(ROOT, "evidence", self.pid + ".json.tmp")
        with open(tmp, "w") as f:
            json.dump(ev, f, indent=1, sort_keys=True, default=str)
            f.write("\n")
        os.replace(tmp, os.path.join(ROOT, "evidence", self.pid + suffix + ".json"))
        for key, v, hit in kf:
            print("KNOWN-FINDING: property=%s %s (%d occurrence(s)) e.g. %s" %
                  (self.pid, key, v["count"], json.dumps(v["example"], default=str)[:300]))
        rc = 0
        if not os.environ.get("VERIF_KEEP_REPLAY"):
            for old_file in glob.glob(os.path.join(ROOT, "replay", self.pid + "-*.json")):
                try:
                    os.remove(old_file)
                except OSError:
                    pass
        if new:
            os.makedirs(os.path.join(ROOT, "replay"), exist_ok=True)
            for key, v, _ in new:
                hid = hashlib.sha256(key.encode()).hexdigest()[:10]
                path = os.path.join(ROOT, "replay", "%s-%s.json" % (self.pid, hid))
                with open(path, "w") as f:
                    json.dump({"property": self.pid, "key": key, "count": v["count"], "example": v["example"],
                               "seed": self.seed, "tier": self.tier}, f, indent=1, default=str)
                    f.write("\n")
                print("VIOLATION property=%s replay=%s key=%s" % (self.pid, path, key))
            rc = 1
        elif self.inconclusive:
            for m in self.inconclusive:
                print("INCONCLUSIVE property=%s %s" % (self.pid, m))
            rc = 2
        print("%s tier=%s seed=%s: evaluations=%d distinct=%d violations=%d known=%d wall=%.1fs -> exit %d" %
              (self.pid, self.tier, self.seed, self.evaluations, self.distinct, len(new), len(kf), wall, rc))
        return rc
