"""Per-property check definitions (workloads, counts, minimum observations)."""
import json
import os
import re

from . import core
from .core import Check, ensure_monitor, run_workers, NCPU

W = NCPU  # worker processes


def _seeds(seed, n=W):
    return [seed * 1009 + i for i in range(n)]


def _api(prop, tier, seed, flavour, games, plies, synth, walks=0, extra=None, timeout=1500, level="exploration"):
    exe = ensure_monitor(flavour, "api_monitor")
    argvs = []
    for i, s in enumerate(_seeds(seed)):
        a = [exe, "--prop", prop, "--seed", str(s), "--games", str(games), "--plies", str(plies), "--synth", str(synth),
             "--walks", str(walks)]
        if extra:
            a += extra(i)
        argvs.append(a)
    c = Check(prop, tier, seed, level)
    for w in run_workers(argvs, timeout):
        c.absorb(w)
    return c


API_ASSUME = ["oracle/ (independent mailbox rules implementation) is correct; pinned by published perft counts in its self-test",
              "positions are drawn from legal games and from the retro-legal domain of DESIGN.md Appendix A.1"]


def c01(tier, seed):
    q = tier == "quick"
    c = _api("C01", tier, seed, "asan" if q else "rel", games=60 if q else 16000, plies=150, synth=14000 if q else 3500000, timeout=5400)
    if not q:
        c2 = _api("C01", tier, seed + 500, "asan", games=300, plies=150, synth=60000)
        _merge(c, c2)
    c.rule = ("every ply of oracle-played random games + retro-legal synthetic positions (ep/pin/check/castle/promo/many-pieces "
              "templates); engine generate_moves() compared as a set of (from,to,promo) triples with the oracle's legal moves; "
              "non-trivial = distinct position (FEN fields 1-4) that is in check, has an ep square, a pinned piece or a castling right")
    c.assumptions = API_ASSUME
    res = _uci("replay", seed, 24 if q else 400)
    _uci_crashes(c, res)
    _uci_perfts(c, res)
    c.require("positions", 100000 if q else 5000000)
    c.require("synth:ep-matrix", 1000)
    c.require("uci-perft-counts-compared", 50)
    c.require("perft-differentials", 5000)
    return c.finish()


def _merge(a, b):
    a.evaluations += b.evaluations
    a.distinct += b.distinct
    for k, v in b.counters.items():
        a.counters[k] = a.counters.get(k, 0) + v
    for k, v in b.viol.items():
        a.add_violation(k, v["example"], v["count"])
    a.inconclusive += b.inconclusive
    for s in b.samples:
        a.add_sample(s)


def c02(tier, seed):
    q = tier == "quick"
    c = _api("C02", tier, seed, "asan" if q else "rel", games=50 if q else 12000, plies=200, synth=6000 if q else 1600000, timeout=5400)
    c.rule = ("all legal moves of every generated position: Position::do_move then fen() compared field by field with the oracle's "
              "make-move; plus every game prefix replayed move by move (history part); non-trivial = (position, move) pairs; "
              "distinct counted per position")
    c.distinct = int(c.counters.get("positions", 0))
    c.assumptions = API_ASSUME + ["half-move clocks stay <= 150 (75-move rule ends legal play)"]
    res = _uci("replay", seed + 1, 32 if q else 600)
    _uci_crashes(c, res)
    _uci_boards(c, res)
    for k in ["class:castleK", "class:castleQ", "class:ep", "class:promo", "class:promo-capture", "class:rook-captured-at-home"]:
        c.require(k, 300 if q else 20000)
    c.counters["uci-replay-sessions:king-leaves-home-along-back-rank"] = sum(1 for r_ in res if r_["tag"].startswith("replay-king-leaves-home"))
    c.require("uci-printboard-fens-compared", 150)
    c.require("uci-replay-sessions:king-leaves-home-along-back-rank", 3)
    return c.finish()


def c03(tier, seed):
    q = tier == "quick"
    c = _api("C03", tier, seed, "asan" if q else "rel", games=20 if q else 800, plies=120, synth=1500 if q else 60000,
             walks=400 if q else 30000)
    c.rule = ("snapshot of all observables (fen, keys, three piece representations, rights, ep, clocks, repetition/draw answers, "
              "static eval, generated move set, history prefix) before do/undo of every legal move and null move, and at every "
              "level of nested random tree walks (depth<=12) and around perft(d<=3); non-trivial = distinct root positions")
    # "a search never alters the position it was asked about": the search's own root position is snapshotted at every
    # (re-)entry of the root node and right before the answer, for depth-, node-, time-limited and stopped searches
    exe = ensure_monitor("asan", "search_monitor")
    argvs = [[exe, "--prop", "C03", "--seed", str(sd), "--searches", str(60 if q else 1500), "--maxdepth", "5"] for sd in _seeds(seed + 300)]
    for w in run_workers(argvs, 2400):
        c.absorb(w)
    c.assumptions = API_ASSUME
    c.require("root-entries-snapshotted", 1500)
    c.require("stop:before-iter1", 8)
    c.require("stop:later", 8)
    c.require("walk-pairs", 5000 if q else 300000)
    c.require("undo:castleK", 50)
    c.require("undo:ep", 50)
    c.require("undo:promo", 50)
    c.require("undo:null", 1000)
    return c.finish()


def c04(tier, seed):
    q = tier == "quick"
    c = _api("C04", tier, seed, "asan" if q else "rel", games=160 if q else 60000, plies=150, synth=4000 if q else 1500000, timeout=5400)
    c.rule = ("incremental key == key of Position(fen) after every move/null move; process-wide maps position(FEN fields 1-4)<->key "
              "and pawn placement<->pawn key; shuffle games on sparse positions force transpositions (revisits counted); every "
              "16th position: all siblings sharing its placement (2 sides x admissible rights subsets x admissible ep squares) get "
              "pairwise different keys; non-trivial = distinct positions")
    c.assumptions = API_ASSUME + ["injectivity is 'no collision observed', all a 64-bit key allows"]
    c.require("revisits", 20000 if q else 1000000)
    c.require("distinct-positions", 100000 if q else 3000000)
    c.require("sibling-positions", 50000 if q else 1000000)
    return c.finish()


def c07(tier, seed):
    q = tier == "quick"
    c = _api("C07", tier, seed, "asan" if q else "rel", games=120 if q else 40000, plies=160, synth=2500 if q else 700000, timeout=5400)
    c.rule = ("every ply of oracle-played games (repetition-biased, late-clock starts, sparse material, up to 790 plies): the eight "
              "predicates compared with the oracle's own game history (position strings, clock, material); non-trivial = distinct "
              "(position, occurrence count, clock>=100) triples")
    c.assumptions = API_ASSUME + ["games shorter than 800 positions (longer games are C10's business)"]
    c.require("synth:only-ep-evasion", 40)
    c.require("synth:corner-rook-captured-by-promoting-pawn", 100)
    for k, n in [("true:is_in_check", 500), ("true:is_checkmate", 100), ("true:is_stalemate", 30), ("true:is_repeated", 500),
                 ("true:threefold_repetition", 200), ("true:rule50", 200)]:
        c.require(k, n)
    return c.finish()


def c15(tier, seed):
    q = tier == "quick"
    c = _api("C15", tier, seed, "asan" if q else "rel", games=60 if q else 12000, plies=150, synth=14000 if q else 3500000, timeout=5400)
    c.rule = ("move_is_capture / move_is_quiet / move_gives_check for every legal move vs the oracle's make-move outcome; "
              "non-trivial = distinct (position, move) that is a capture, promotion, castle or check")
    c.assumptions = API_ASSUME
    for k in ["check:promo-piece", "check:castle-rook", "check:discovered", "check:direct", "class:castleK", "class:ep"]:
        c.require(k, 100 if q else 5000)
    return c.finish()


def c16(tier, seed):
    q = tier == "quick"
    c = _api("C16", tier, seed, "asan" if q else "rel", games=50 if q else 12000, plies=150, synth=8000 if q else 2500000, timeout=5400,
             extra=lambda i: ["--encoding"] if i == 0 else [])
    c.rule = ("uci(m) text vs oracle long algebraic and parse_uci(uci(m)) == m for every legal move; exhaustive enumeration of the "
              "packed Move / MoveInfo encodings; Position(P.fen()) identical to P (text, keys, placement, rights, ep, clocks); "
              "non-trivial = distinct positions + special moves")
    c.assumptions = API_ASSUME
    c.require("encoding-cases", 1000000)
    c.require("class:castleQ", 100)
    c.require("class:promo", 100)
    return c.finish()


def c17(tier, seed):
    q = tier == "quick"
    c = _api("C17", tier, seed, "asan", games=30 if q else 1200, plies=120, synth=5000 if q else 250000)
    c.rule = ("san(m) for every legal move: accepted by parse_san as m, and resolved by the oracle's independent SAN resolver to "
              "exactly {m}; non-trivial = distinct (position, move) needing disambiguation / suffix / promotion / castling / capture")
    c.assumptions = API_ASSUME + ["+/# suffix correctness is recorded as an observation only (not part of the statement)"]
    c.require("disambiguation:3+candidates", 100)
    c.require("class:castleK", 100)
    c.require("positions-with-more-than-128-moves", 1)
    return c.finish()


def c18(tier, seed):
    q = tier == "quick"
    c = _api("C18", tier, seed, "asan" if q else "rel", games=60 if q else 25000, plies=150, synth=20000 if q else 8000000, timeout=5400)
    c.rule = ("PolyglotBook::hash vs the published algorithm on a golden Random64[781]; every ply of games + synthetic positions "
              "(half of them ep-matrix); the key of the same Position object again after each legal move was made and taken back "
              "(all moves where an ep square exists, every 8th position otherwise); UCI sessions with a one-key book written under "
              "the root's spec key (root reached by `position ... moves` or `position` + `moves`): the book move must be answered; "
              "non-trivial = distinct positions with an ep square or castling rights")
    c.assumptions = API_ASSUME + ["golden Random64 table extracted once from the pinned commit, pinned by the 9 official vectors "
                                  "and 3 published anchor constants (DESIGN.md C18 caveat)"]
    # the key as the running engine uses it: a one-key book written for the root's spec key must be found, whichever way
    # the session reached the root
    _book_sessions(c, seed + 7, 32 if q else 400)
    for k in ["geo:ep:left", "geo:ep:right", "geo:ep:both", "geo:ep:none"]:
        c.require(k, 200)
    for m in range(16):
        c.require("castle-set:%d" % m, 300)
    c.require("synth:many-pieces", 1000)
    c.require("keys-after-make-unmake", 20000)
    c.require("uci-book-answers", 60)
    c.require("uci-book-sessions:root-via-moves-command", 5)
    return c.finish()


CHECKS = {"C01": c01, "C02": c02, "C03": c03, "C04": c04, "C07": c07, "C15": c15, "C16": c16, "C17": c17, "C18": c18}


def _split(prop, tier, seed, flavour, monitor, extra, workers=W, timeout=1500, level="exploration", virtual=None):
    exe = ensure_monitor(flavour, monitor)
    argvs = [[exe, "--worker", str(i), "--workers", str(virtual or workers), "--seed", str(s)] + extra
             for i, s in enumerate(_seeds(seed, workers))]
    c = Check(prop, tier, seed, level)
    for w in run_workers(argvs, timeout):
        c.absorb(w)
    return c


def c11(tier, seed):
    q = tier == "quick"
    c = _split("C11", tier, seed, "rel", "tables_monitor", ["--randoms", str(150000 if q else 40000000)], timeout=5400)
    if not q:
        _merge(c, _split("C11", tier, seed + 500, "asan", "tables_monitor", ["--randoms", "200000"]))
    # the tables as a user meets them: the first command of a fresh process already relies on them
    res = _uci("coldstart", seed + 6, 20 if q else 200, flavour="rel")
    _uci_crashes(c, res)
    _uci_perfts(c, res)
    _uci_boards(c, res)
    c.counters["uci-cold-start-sessions"] = len(res)
    c.rule = ("EXHAUSTIVE: all 64 x 2^k subsets of the relevant blocker squares for bishop (5,248) and rook (102,400), each also with "
              "random garbage outside the mask; every entry of KNIGHT_MASK, KING_MASK, RAYS, LINES, FULL_LINES; shift<> in all ten "
              "directions; plus random full occupancies and pawn/king set functions; plus the attack relation as Position::is_in_check "
              "consumes it (every attacker kind/colour/square x every king square, alone and with a blocker); plus fresh engine processes whose FIRST command is "
              "perft / moves / printboard / staticeval (no uci, isready or position before it), perft counts and boards compared with "
              "the oracle; non-trivial = squares")
    c.exhaustive = True
    c.extra["explanation"] = "table part enumerated completely; random occupancies are additional sampling"
    c.assumptions = ["geometry reference = coordinate walks written in harness/tables_monitor.cpp"]
    need_r = 102400 * (1 if q else 2)
    c.require("rook-subsets", need_r)
    c.require("bishop-subsets", 5248 * (1 if q else 2))
    c.require("leaper-line-table-entries", 8832)
    c.require("attack-relation-cases", 40000)
    c.require("attack-relation-cases:attacked", 6000)
    c.require("uci-cold-start-sessions", 20 if q else 200)
    c.require("uci-perft-counts-compared", 40 if q else 400)
    return c.finish()


def c12(tier, seed):
    q = tier == "quick"
    c = _split("C12", tier, seed, "rel" if q else "asan", "kpk_monitor", [])
    c.rule = ("EXHAUSTIVE: every legal K+P v K position (both pawn colours, both sides to move; 2 x 331,352) - bitbase::check after "
              "normalize, endgame::score and PositionScorer::score classification vs the oracle's retrograde solution; every 23rd "
              "position also reached by a capture from a four-man ending (parent evaluated first), every 5th evaluated again right "
              "after a KQK/KRK position of the same strong side (classification must not depend on what was evaluated before); "
              "fresh engine processes asked for `staticeval` of a K+P v K position before / right after `go infinite` (first use of "
              "the knowledge, two threads); non-trivial = every position")
    c.exhaustive = True
    c.assumptions = ["oracle/kpk.cpp retrograde solver over K+P+K, K+Q+K, K+R+K with the oracle move generator; fixed-point and "
                     "textbook positions checked in the oracle self-test"]
    c.require("kpk-positions", 662704)
    c.require("kpk-reached-by-capture:weak-king-takes-pawn", 3000)
    c.require("kpk-reached-by-capture:strong-king-takes-knight", 3000)
    c.require("kpk-evaluated-after-another-endgame", 50000)
    # the knowledge as the running engine gives it: a fresh process, `staticeval` of a K+P v K position on the reader thread
    # before, or right after, a search thread was started on it (first use of the knowledge in that process)
    res = _uci("kpkcold", seed + 8, 24 if q else 240, flavour="rel")
    _uci_crashes(c, res)
    for r_ in res:
        for e in r_.get("evals", []):
            c.evaluations += 1
            c.counters["uci-kpk-staticevals"] = c.counters.get("uci-kpk-staticevals", 0) + 1
            m = re.match(r"Score:\s*(cp|mate)\s+(-?\d+)", e["line"] or "")
            if not m:
                c.add_violation("uci-staticeval:no-score-line", {"tag": r_["tag"], "fen": e["fen"], "line": e["line"]})
                continue
            v = int(m.group(2)) if m.group(1) == "cp" else (1000000 if int(m.group(2)) > 0 else -1000000)
            strong_v = v if e["strong_to_move"] else -v
            win = strong_v >= 50000
            if win != e["truth_win"]:
                c.add_violation("uci-staticeval:%s:%s" % ("engine-draw-truth-win" if e["truth_win"] else "engine-win-truth-draw", r_["tag"].split(":")[1]),
                                {"tag": r_["tag"], "fen": e["fen"], "engine": e["line"], "truth": "win" if e["truth_win"] else "draw", "cmds": r_["cmds"][-5:]})
    c.require("uci-kpk-staticevals", 24 if q else 240)
    return c.finish()


def c20(tier, seed):
    q = tier == "quick"
    args = ["--randoms", str(60000 if q else 3000000), "--sweeps", str(600 if q else 40000)]
    c = _split("C20", tier, seed, "rel", "time_monitor", args)
    # the UBSan build walks a third of the grid in the quick tier (48 virtual workers, 16 run)
    _merge(c, _split("C20", tier, seed + 500, "asan", "time_monitor", ["--randoms", str(20000 if q else 300000), "--sweeps",
                                                                       str(200 if q else 4000)], workers=W, virtual=(3 * W if q else W)))
    # under UBSan an overflow / float-cast report IS the 'overflow or sign slip' of this property
    for k in list(c.counters):
        if k.startswith("sanitizer:ubsan:") and k.split(":")[2] in ("signed-overflow", "float-cast", "shift", "div-zero"):
            c.add_violation("ubsan:" + k.split(":")[2], {"note": "UBSan report inside calculateTime workload", "count": c.counters[k]})
    # the allotment as a running search uses it: clock-governed searches of the real Search class, the budget read through the
    # iteration hooks (start and end of every iteration, before bestmove); verdict on the values, never on wall time
    _merge(c, _search("C20", tier, seed + 900, "rel", 20 if q else 400, 0, timeout=5400))
    # the same through the real UCI front end (in-process Uci object, commands over a pipe): clock-governed `go` commands in
    # nine argument orders (with / without searchmoves, increments, movestogo) after eight kinds of earlier commands in the
    # same session (movetime / depth / nodes / stopped infinite / larger-clock / searchmoves searches, ucinewgame)
    reps = 1 if q else 4
    for rep in range(reps):
        _merge(c, _split("C20", tier, seed + 950 + rep, "asan", "sched_monitor", ["--only-budget"], timeout=3000))
    c.rule = ("grid over remaining time x increment x movestogo x ply x colour, random tuples, and monotone sweeps (200 increasing clock "
              "values per (inc, movestogo, ply)); run in the -Ofast build users run and in the UBSan build; plus live clock-governed searches "
              "(roots with one and with many legal moves, allotment at the 70% cap, unstable scores) whose working budget is read at every "
              "iteration boundary and must stay within 0..70% of the mover's clock; the same budget read while an in-process Uci object "
              "executes sessions (4 roots x 9 spellings of a clock-governed go x 8 kinds of earlier commands); non-trivial = distinct "
              "random tuples and (root, go) pairs")
    c.assumptions = ["domain: time 0..24h ms, increment 0..10min, movestogo 0..200, ply 0..1000 (the property's quantifier)",
                     "live part: clocks 1..4000 ms so that a search takes at most a few seconds"]
    c.require("grid-points", 4000000)
    c.require("monotone-steps", 50000)
    c.require("live-searches", 200 if q else 4000)
    c.require("live-searches:single-legal-move", 30 if q else 600)
    c.require("live-searches:budget-positive", 100 if q else 2000)
    c.require("live-searches:score-swing-with-allotment-at-the-cap", 1 if q else 20)
    c.require("uci-budget-scenarios", 280 if q else 1100)
    c.require("uci-budget:positive", 150 if q else 600)
    return c.finish()


CHECKS.update({"C11": c11, "C12": c12, "C20": c20})


def _eval(prop, tier, seed, flavour, games, synth, endgames, directed_workers=0, timeout=1500):
    exe = ensure_monitor(flavour, "eval_monitor")
    argvs = []
    for i, sd in enumerate(_seeds(seed)):
        a = [exe, "--prop", prop, "--seed", str(sd), "--games", str(games), "--plies", "140", "--synth", str(synth),
             "--endgames", str(endgames)]
        if i < directed_workers:
            a += ["--directed", "--slot0", "2500000"]
        argvs.append(a)
    c = Check(prop, tier, seed)
    for w in run_workers(argvs, timeout):
        c.absorb(w)
    return c


def c13(tier, seed):
    q = tier == "quick"
    c = _eval("C13", tier, seed, "rel", games=40 if q else 3000, synth=3000 if q else 400000, endgames=150 if q else 15000, timeout=5400)
    _merge(c, _eval("C13", tier, seed + 500, "asan", games=6 if q else 100, synth=500 if q else 10000, endgames=20 if q else 400))
    c.rule = ("score(P) == score(mirror(P)) for game positions, synthetic positions and every specialised endgame class with either "
              "colour as the strong side (positions with insufficient material excluded per the statement); mismatches re-evaluated on "
              "fresh evaluators before being reported; non-trivial = distinct positions")
    c.assumptions = ["mirror() is the oracle's (ranks flipped, colours, rights, ep square and side swapped)"]
    for cls in ["KPK", "KBPsKB", "KQKP", "KRKP", "KNNKP", "KQKRPs", "KBPsK", "KmmKm", "KXK"]:
        c.require("class:%s:white-strong" % cls, 1000)
        c.require("class:%s:black-strong" % cls, 1000)
    return c.finish()


def c14(tier, seed):
    q = tier == "quick"
    c = _eval("C14", tier, seed, "rel", games=30 if q else 5000, synth=3000 if q else 400000, endgames=200 if q else 30000, timeout=5400,
              directed_workers=6 if q else 16)
    _merge(c, _eval("C14", tier, seed + 500, "asan", games=4 if q else 60, synth=400 if q else 5000, endgames=40 if q else 400))
    c.rule = ("streams of positions evaluated on two long-lived evaluators (different order, random clear() points) and on fresh "
              "evaluators; directed histories built at run time: two pawn structures sharing a cache slot (A-B-A, A-clear-B) and a pawn "
              "structure in slot 0 followed by clear() and pawnless positions; |score| < win_in(MAX_DEPTH) on every evaluation incl. "
              "extreme material; non-trivial = distinct positions evaluated twice")
    c.assumptions = ["a brand-new PositionScorer is the history-free reference"]
    c.require("directed:slot0-structure-found", 1)
    c.require("directed:slot0-clear-pawnless", 3)
    c.require("directed:A-B-A", 8)
    c.require("directed:32bit-collision-A-B-A", 4)
    c.require("clears", 100)
    return c.finish()


CHECKS.update({"C13": c13, "C14": c14})


def _book_sessions(c, seed, n):
    """UCI sessions with a generated one-key book: the answer must be a move the book allows for the root (reached by
    `position ... moves`, or by `position` + the engine's `moves` command); after a switch to a recordless book a search runs."""
    res = _uci("book", seed, n)
    _uci_crashes(c, res)
    for r_ in res:
        for g in r_["gos"]:
            c.evaluations += 1
            c.counters["uci-book-answers"] = c.counters.get("uci-book-answers", 0) + 1
            bm = [l.split()[1] for l in g["out"] if l.startswith("bestmove") and len(l.split()) > 1]
            if not bm or bm[0] not in g["legal"]:
                c.add_violation("uci-book:answer-not-allowed-by-book:" + r_["tag"].split(":")[1] +
                                (":root-via-moves-command" if "root-via-moves-command" in r_["tag"] else ""),
                                {"tag": r_["tag"], "fen": g["fen"], "answer": bm, "book_allows": g["legal"], "cmds": r_["cmds"][-5:]})
            if "__search__" in g["sm"]:
                c.counters["uci-book-switched-to-recordless-book"] = c.counters.get("uci-book-switched-to-recordless-book", 0) + 1
                if not any(l.startswith("info") for l in g["out"]):
                    c.add_violation("uci-book:stale-records-after-switch:" + r_["tag"].split(":")[-1],
                                    {"tag": r_["tag"], "fen": g["fen"], "answer": bm, "cmds": r_["cmds"][-6:],
                                     "note": "no search ran after the book was replaced by one without complete records"})
    c.counters["uci-book-sessions:root-via-moves-command"] = sum(1 for r_ in res if "root-via-moves-command" in r_["tag"])
    return res


def c19(tier, seed):
    q = tier == "quick"
    exe = ensure_monitor("asan", "book_monitor")
    exe_rel = ensure_monitor("rel", "book_monitor")
    argvs = []
    for i, sd in enumerate(_seeds(seed)):
        if i % 2 == 0:
            argvs.append([exe, "--seed", str(sd), "--files", str(120 if q else 3000), "--lookups", str(40 if q else 800),
                          "--draws", "20000"])
        else:
            argvs.append([exe_rel, "--seed", str(sd), "--files", str(300 if q else 6000), "--lookups", str(150 if q else 4000),
                          "--draws", "200000"])
    c = Check("C19", tier, seed)
    for w in run_workers(argvs, 1500):
        c.absorb(w)
    c.rule = ("generated book files (0..64 records, empty, truncated at every offset mod 16, duplicate keys, weights 0/1/2/3/large): "
              "loaded multiset (peek hook) == complete records of the file; contains() exactly for file keys; best policy in argmax; "
              "random policy: 2*10^4..2*10^5 draws per weight vector within 7 sigma of weight/sum and never a zero-weight move; decoded "
              "moves (castling as king-takes-rook, promotions) equal the oracle's; non-trivial = distinct files / (position, weight vector)")
    c.assumptions = ["keys with all weights zero are not sampled (the statement gives them no meaning)",
                     "7-sigma acceptance band: false-alarm probability < 1e-11 per test"]
    _book_sessions(c, seed + 4, 48 if q else 600)
    c.require("uci-book-answers", 100)
    c.require("uci-book-sessions:root-via-moves-command", 5)
    c.require("uci-book-switched-to-recordless-book", 10)
    c.require("book-move:non-king-from-e1/e8-along-back-rank", 30)
    c.require("files:empty", 8)
    c.require("files:truncated-tail", 500)
    c.require("weight-vectors-sampled", 600)
    c.require("book-move:castling", 100)
    c.require("book-move:promotion", 100)
    return c.finish()


CHECKS["C19"] = c19


def _search(prop, tier, seed, flavour, searches, maxdepth, extra=None, timeout=2400):
    exe = ensure_monitor(flavour, "search_monitor")
    argvs = []
    for i, sd in enumerate(_seeds(seed)):
        a = [exe, "--prop", prop, "--seed", str(sd), "--searches", str(searches), "--maxdepth", str(maxdepth)]
        if extra:
            a += extra(i)
        argvs.append(a)
    c = Check(prop, tier, seed)
    for w in run_workers(argvs, timeout):
        c.absorb(w)
    return c


SEARCH_ASSUME = ["oracle/ legal-move generator decides legality of bestmove and pv moves",
                 "roots have at least one legal move (the statement's precondition); half-move clock <= 140"]


def c05(tier, seed):
    q = tier == "quick"
    c = _search("C05", tier, seed, "asan", 140 if q else 4000, 5 if q else 6)
    if not q:
        _merge(c, _search("C05", tier, seed + 500, "rel", 12000, 6))
    c.level = "fault_enumeration"
    c.rule = ("in-process Search::go with captured output: positions x limits {depth, nodes, movetime incl. 1/-5 ms, clocks incl. 0/1/-1 ms, "
              "searchmoves, infinite} x table state {fresh, warm, poisoned with illegal moves / extreme scores / stale epochs under the exact "
              "keys of root, children, grandchildren} x stop delivered at an exact node visit k through the node hook (all k=1..64 on every "
              "16th root, random k up to 10^5); exactly one bestmove, legal; every pv replayed on the oracle board; "
              "non-trivial = distinct (position, go, table) triples")
    c.assumptions = SEARCH_ASSUME + ["poisoned tables are judged for legality only"]
    res = _uci("multigame", seed + 2, 32 if q else 600)
    _uci_crashes(c, res)
    _uci_judge(c, "C05", res)
    c.require("uci-go-commands-judged", 300)
    c.require("searches:poisoned", 300)
    c.require("stop:before-iter1", 100)
    c.require("stop:later", 50)
    c.require("pv-lines-replayed", 3000)
    return c.finish()


def c08(tier, seed):
    q = tier == "quick"
    c = _search("C08", tier, seed, "asan", 120 if q else 2500, 5 if q else 6)
    if not q:
        _merge(c, _search("C08", tier, seed + 500, "rel", 10000, 7))
    c.rule = ("searches of mate-in-N skeletons (cornered king, heavy attackers), near-mates and ordinary roots, fresh and warm tables "
              "(never poisoned): a root with a mate in one must answer with a mating move at every depth; every final `score mate y` "
              "is decided by the oracle's exhaustive AND/OR mate solver (engine's own unit first, then the y-moves reading, within a "
              "node budget; budget exhaustion is counted as unverified, never as a violation); non-trivial = distinct (position, go, table)")
    c.assumptions = SEARCH_ASSUME + ["mate claims longer than the solver budget allows are reported as unverified"]
    c.require("roots:mate-in-one-with-clock>=98", 40)
    c.require("searches:after-aborted-search-of-same-root", 300)
    c.require("ep-twin-scenarios", 50)
    c.require("aborted-inside-iteration-2-then-searched-again", 200)
    c.require("roots:sparse-material-mate-in-one", 200)
    c.require("roots:mate-threat-with-few-defences", 200)
    c.require("mate-in-one-roots", 100)
    c.require("mate-announcements", 150)
    c.require("mate-announcements-verified", 100)
    return c.finish()


def c09(tier, seed):
    q = tier == "quick"
    c = _search("C09", tier, seed, "asan", 80 if q else 2500, 5 if q else 6, extra=lambda i: ["--deep"] if i < 2 else [])
    if not q:
        _merge(c, _search("C09", tier, seed + 500, "rel", 8000, 7, extra=lambda i: ["--deep"] if i < 2 else []))
    c.rule = ("info-depth sequence 1..k<=d without gaps, bestmove in searchmoves (random subsets; subsets that exclude the move a deeper "
              "search just stored for the root, with and without epoch bump), time/clock/movestogo limits terminate (node-visit cap as "
              "logical witness), depth limits 39/40/41/42/60/100/1000 on cheap positions; non-trivial = distinct (position, go, table)")
    c.assumptions = SEARCH_ASSUME + ["termination for large depth limits is decided on cheap positions only (bounded restatement, DESIGN.md C09)"]
    res = _uci("multigame", seed + 3, 24 if q else 400) + _uci("deepdepth", seed + 3, 14 if q else 56) + \
        _uci("smpromo", seed + 3, 32 if q else 400)
    _uci_crashes(c, res)
    _uci_judge(c, "C09", res)
    c.require("uci-go-commands-judged", 200)
    c.require("roots:mate-positions", 200)
    c.require("deep-limit-searches", 80)
    c.require("searches:root-entry-outside-S:epoch-bumped", 50)
    c.require("searches:root-entry-outside-S:same-epoch", 50)
    return c.finish()


CHECKS.update({"C05": c05, "C08": c08, "C09": c09})


# ----------------------------------------------------------------------------- UCI sessions on the real binary

def _run_sessions(exe, sessions, env=None, wrapper=None, jobs=NCPU, go_timeout=120, slow=1.0):
    import concurrent.futures as cf
    from . import session as S
    with cf.ThreadPoolExecutor(jobs) as ex:
        return list(ex.map(lambda s: S.run_session(exe, s, env, wrapper, go_timeout, slow), sessions))


def _session_problems(c, res, memory_verdict=True):
    """Route everything a finished session shows through the check's violation table (C10 keys, DESIGN.md A.5)."""
    ex = {"tag": res["tag"], "cmds": [x[:160] + ("..." if len(x) > 160 else "") for x in res["cmds"][-12:]], "n_cmds": len(res["cmds"])}
    reps = core.parse_sanitizer(res["stderr"])
    seen = set()
    fatal = False
    for r in reps:
        c.counters["sanitizer:%s:%s" % (r["tool"], r["kind"])] = c.counters.get("sanitizer:%s:%s" % (r["tool"], r["kind"]), 0) + 1
        if r["tool"] == "asan":
            key = "asan:%s@%s" % (r["kind"], r["frame"])
            fatal = True
        elif r["tool"] == "bound":
            key = "VERIF-BOUND:%s" % r["where"]
            fatal = True
        elif r["kind"] in core.UBSAN_MEMORY_KINDS:
            key = "ubsan:%s@%s:%s" % (r["kind"], r["where"], r["frame"])
        else:
            continue
        if key in seen:
            continue
        seen.add(key)
        if memory_verdict:
            c.add_violation(key, dict(ex, report=r["text"]))
    rc = res["rc"]
    if res.get("aborted"):
        # not a memory verdict: the session stalled (lost stop, hang); C05/C06/C09 judge that
        c.inconclusive.append("session could not be completed (%s): %s" % (",".join(res["problems"]), res["tag"]))
        return
    if memory_verdict and not fatal:
        if res["hung_on_quit"]:
            c.add_violation("hang:on-quit", ex)
        elif rc is not None and rc != 0:
            key = "signal:%d" % (-rc) if rc < 0 else "exit:%d" % rc
            c.add_violation(key, dict(ex, stderr_tail=res["stderr"][-500:]))
        for pbl in res["problems"]:
            if rc == 0:
                c.add_violation("session:" + pbl, ex)


def _uci(kind, seed, n, flavour="asan", go_timeout=90):
    from . import session as S
    d = core.ensure_engine(flavour)
    exe = os.path.join(d, "chessplusplus")
    sessions = S.gen_sessions(kind, seed, n)
    return _run_sessions(exe, sessions, go_timeout=go_timeout)


def _uci_crashes(c, results):
    for res in results:
        c.counters["uci-sessions"] = c.counters.get("uci-sessions", 0) + 1
        if res.get("aborted"):
            c.add_violation("uci:session-stalled:" + ",".join(res["problems"]), {"tag": res["tag"], "cmds": res["cmds"][-6:]})
        elif res["rc"] not in (0, None):
            reps = core.parse_sanitizer(res["stderr"])
            fatal = [r for r in reps if r["tool"] in ("asan", "bound")]
            key = "uci-crash:%s" % (("%s:%s@%s" % (fatal[0]["tool"], fatal[0]["kind"], fatal[0]["frame"])) if fatal else "rc=%s" % res["rc"])
            c.add_violation(key, {"tag": res["tag"], "cmds": res["cmds"][-6:], "stderr_tail": res["stderr"][-400:]})


def _uci_boards(c, results):
    names = ["placement", "side", "castling", "ep", "halfmove", "fullmove"]
    for res in results:
        for want, got in res["boards"]:
            c.evaluations += 1
            c.counters["uci-printboard-fens-compared"] = c.counters.get("uci-printboard-fens-compared", 0) + 1
            if got != want:
                field = "missing"
                if got:
                    a, b = got.split(), want.split()
                    field = next((names[i] for i in range(min(len(a), len(b), 6)) if a[i] != b[i]), "format")
                c.add_violation("uci-path:" + field, {"tag": res["tag"], "engine_fen": got, "oracle_fen": want,
                                                      "last_cmds": [x[:200] for x in res["cmds"][-3:]]})


def _uci_perfts(c, results):
    for res in results:
        for depth, want, got in res["perfts"]:
            c.evaluations += 1
            c.counters["uci-perft-counts-compared"] = c.counters.get("uci-perft-counts-compared", 0) + 1
            if got != want:
                c.add_violation("uci-perft:count-mismatch:depth%d" % depth, {"tag": res["tag"], "engine": got, "oracle": want,
                                                                            "last_cmds": [x[:200] for x in res["cmds"][-3:]]})


def _uci_judge(c, prop, results):
    from . import session as S
    w = S.judge(prop, results)
    c.absorb(w)
    for res in results:
        ngo = len(res["gos"])
        if res["all_bestmoves"] != sum(1 for g in res["gos"] if g["answered"]) and not res.get("aborted") and prop == "C05":
            c.add_violation("two-bestmoves:uci-session", {"tag": res["tag"], "bestmove_lines": res["all_bestmoves"], "go_commands": ngo})


def c10(tier, seed):
    q = tier == "quick"
    from . import session as S
    d = core.ensure_engine("asan")
    exe = os.path.join(d, "chessplusplus")
    plan = [("longgame", 18 if q else 90), ("deepdepth", 28 if q else 112), ("manymoves", 10 if q else 60),
            ("multigame", 60 if q else 1200), ("forcing", 12 if q else 48)]
    sessions = []
    for kind, n in plan:
        sessions += S.gen_sessions(kind, seed, n)
    c = Check("C10", tier, seed)
    results = _run_sessions(exe, sessions, go_timeout=60)
    ncmd = 0
    for res in results:
        _session_problems(c, res)
        kind = res["tag"].split(":")[0]
        c.counters["sessions:" + kind] = c.counters.get("sessions:" + kind, 0) + 1
        c.counters["wall-seconds:" + kind] = round(c.counters.get("wall-seconds:" + kind, 0) + res["wall"], 1)
        c.counters["go-commands"] = c.counters.get("go-commands", 0) + len(res["gos"])
        ncmd += len(res["cmds"])
        if "ten-of-a-kind" in res["tag"]:
            c.counters["sessions:ten-of-a-kind"] = c.counters.get("sessions:ten-of-a-kind", 0) + 1
        if res["tag"].startswith("longgame:"):
            n = int(res["tag"].split(":")[1])
            c.counters["longgame-plies>=800"] = c.counters.get("longgame-plies>=800", 0) + (1 if n >= 800 else 0)
        c.add_sample({"tag": res["tag"], "first_commands": [x[:100] for x in res["cmds"][:6]], "n_commands": len(res["cmds"]),
                      "exit": res["rc"]}, cap=8)
    c.evaluations = ncmd
    c.distinct = len(set(json.dumps(s["steps"]) for s in sessions))
    # the window right after a bestmove line: the next `position` + `go` of the session are executed while the previous search
    # thread is parked between the delivery of its answer and its return (harness-level stream buffer); ASan judges
    sexe = ensure_monitor("asan", "sched_monitor")
    for w in run_workers([[sexe, "--only-nextgo", "--worker", str(i), "--workers", "4", "--seed", str(seed)] for i in range(4)], 900):
        c.absorb(w)
    # memcheck on shortened sessions (uninitialised values, invalid accesses the red zones miss)
    dv = core.ensure_engine("vg")
    vexe = os.path.join(dv, "chessplusplus")
    vs = S.gen_sessions("multigame", seed + 77, 4 if q else 40) + S.gen_sessions("manymoves", seed + 77, 2 if q else 10) + \
        S.gen_sessions("deepdepth", seed + 78, 2 if q else 16)
    for s_ in vs:
        # keep them short: valgrind is 20-50x slower
        s_["steps"] = [st for st in s_["steps"] if not (st[0] == "go" and ("infinite" in st[1] or "depth 30" in st[1]))][:40] + [["send", "quit"]]
    wrap = ["valgrind", "--tool=memcheck", "--error-exitcode=0", "--track-origins=yes", "-q", "--num-callers=12"]
    vres = _run_sessions(vexe, vs, env=core.base_env(), wrapper=wrap, go_timeout=900, slow=20.0)
    for res in vres:
        c.counters["sessions:memcheck"] = c.counters.get("sessions:memcheck", 0) + 1
        c.counters["wall-seconds:memcheck"] = round(c.counters.get("wall-seconds:memcheck", 0) + res["wall"], 1)
        for blk in re.split(r"\n(?===\d+== \S)", res["stderr"]):
            m = re.search(r"==\d+== (Conditional jump or move depends on uninitialised|Use of uninitialised value|Invalid (read|write)|"
                          r"Syscall param .* uninitialised|Invalid free|Mismatched free)", blk)
            if not m:
                continue
            fr = "?"
            for ln in blk.splitlines():
                mm = re.search(r"(?:at|by) 0x[0-9A-F]+: (engine::[^\(]+)", ln)
                if mm:
                    fr = re.sub(r"<.*>", "", mm.group(1)).strip()
                    break
            kind = "uninitialised" if "ninitialised" in m.group(1) else m.group(1).lower().replace(" ", "-")
            c.add_violation("memcheck:%s@%s" % (kind, fr), {"tag": res["tag"], "report": blk[:600], "cmds": res["cmds"][-8:]})
        if res["rc"] not in (0, None) or res["hung_on_quit"]:
            c.inconclusive.append("memcheck session did not finish cleanly: %s rc=%s" % (res["tag"], res["rc"]))
    c.rule = ("well-formed UCI sessions (oracle-generated legal games) on the ASan+UBSan binary with table-bound hooks: games of "
              "700..1500 plies via `position` and via `moves`, depth limits 39..100000 on cheap positions, 218-move and ten-of-a-kind "
              "positions with perft/staticeval/searchmoves(all), forcing lines near the stack depth, multi-game sessions with "
              "ucinewgame/setoption/every go argument; plus shortened sessions under valgrind memcheck; verdict: no ASan report, no "
              "memory-kind UBSan report, no VERIF-BOUND, no memcheck error, exit 0; evaluations = commands sent; non-trivial = distinct sessions")
    c.assumptions = ["sessions are well-formed per DESIGN.md Appendix A.4 (quit only after bestmove, go only with a legal move)",
                     "UBSan kinds outside the statement (shift, signed overflow, float cast) are recorded, not judged"]
    c.require("sessions:ten-of-a-kind", 1)
    c.require("sessions:longgame", 18)
    c.require("longgame-plies>=800", 8)
    c.require("sessions:deepdepth", 28)
    c.require("sessions:multigame", 60)
    c.require("sessions:memcheck", 6)
    c.require("go-commands", 300)
    c.require("next-go-while-previous-search-thread-is-returning", 10)
    return c.finish()


CHECKS["C10"] = c10


def _tsan_blocks_for_stop(err):
    """Split a TSan log into report blocks and classify: does the block concern stop signalling?"""
    flag = None
    m = re.search(r"VERIF-STOPFLAG (0x[0-9a-f]+)", err)
    if m:
        flag = int(m.group(1), 16)
    stop_blocks, other = [], 0
    for blk in core.parse_tsan(err):
        addrs = [int(a, 16) for a in re.findall(r"of size \d+ at (0x[0-9a-f]+)", blk)]
        about_stop = (flag is not None and flag in addrs) or \
            re.search(r"engine::Search::stop\(|engine::Uci::stop_command|engine::Uci::quit_command", blk) is not None
        # tear-down of the Search object at exit (detached thread, freed by ~Uci) is not stop signalling, even when the
        # freed block happens to contain the flag
        if re.search(r"operator delete|\bfree\b|~Uci\(\)|~Search\(\)", blk):
            about_stop = False
        if about_stop:
            stop_blocks.append(blk)
        else:
            other += 1
    return stop_blocks, other


def _race_key(blk):
    frames = []
    for part in re.split(r"\n\s*\n", blk):
        m = re.search(r"#0 (\S.*?) (/|\(|<null>)", part)
        if m and ("Write of" in part or "Read of" in part or "Previous" in part or "Atomic" in part):
            fn = re.sub(r"<.*?>", "", m.group(1))
            fn = re.sub(r"\(.*$", "", fn).strip()
            frames.append(fn)
    frames = sorted(set(frames))[:2]
    kind = "data-race"
    mk = re.search(r"ThreadSanitizer: ([a-z\- ]+)", blk)
    if mk:
        kind = mk.group(1).strip().replace(" ", "-")
    return "race:%s:%s" % (kind, "/".join(frames) or "?")


def c06(tier, seed):
    q = tier == "quick"
    from . import session as S
    # (a) schedule enumeration
    exe = ensure_monitor("asan", "sched_monitor")
    argvs = [[exe, "--worker", str(i), "--workers", str(W), "--seed", str(sd), "--nodes", str(20 if q else 400)]
             for i, sd in enumerate(_seeds(seed))]
    c = Check("C06", tier, seed, "fault_enumeration")
    for w in run_workers(argvs, 1500):
        c.absorb(w)
    # (b) race detection: one go per TSan process, unsynchronised jitter inside
    texe = ensure_monitor("tsan", "uci_main")
    sessions = S.gen_sessions("stoprace", seed, 48 if q else 600)
    import concurrent.futures as cf

    def one(idx_s):
        idx, s_ = idx_s
        env = core.base_env({"CHESSPP_VERIF_MODE": "jitter", "CHESSPP_VERIF_SEED": str(seed * 977 + idx),
                             "TSAN_OPTIONS": "halt_on_error=0:report_signal_unsafe=0:history_size=4"})
        return S.run_session(texe, s_, env, None, 90, 3.0)
    with cf.ThreadPoolExecutor(NCPU) as ex:
        results = list(ex.map(one, enumerate(sessions)))
    lat = []
    for res in results:
        c.evaluations += 1
        c.counters["tsan-sessions"] = c.counters.get("tsan-sessions", 0) + 1
        blocks, other = _tsan_blocks_for_stop(res["stderr"])
        c.counters["tsan-reports-about-stop-signalling"] = c.counters.get("tsan-reports-about-stop-signalling", 0) + len(blocks)
        c.counters["tsan-reports-outside-C06"] = c.counters.get("tsan-reports-outside-C06", 0) + other
        if "VERIF-STOPFLAG" in res["stderr"]:
            c.counters["tsan-sessions-with-stop-flag-address"] = c.counters.get("tsan-sessions-with-stop-flag-address", 0) + 1
        for blk in blocks:
            c.add_violation(_race_key(blk), {"tag": res["tag"], "cmds": res["cmds"], "report": blk[:1500]})
        for g in res["gos"]:
            if not g["answered"]:
                c.add_violation("lost-stop@uci:" + res["tag"].split(":")[1], {"tag": res["tag"], "cmds": res["cmds"],
                                                                                "note": "no bestmove within the watchdog after stop"})
            elif g["stop_latency"] is not None:
                lat.append(g["stop_latency"])
            if g["readyok_during"] is False:
                c.add_violation("no-readyok@uci-running-search", {"tag": res["tag"], "cmds": res["cmds"]})
            if g["readyok_during"]:
                c.counters["readyok-while-search-running"] = c.counters.get("readyok-while-search-running", 0) + 1
        if res["all_bestmoves"] > len(res["gos"]):
            c.add_violation("second-bestmove@uci", {"tag": res["tag"], "cmds": res["cmds"]})
        c.add_sample({"tsan_session": res["tag"], "cmds": res["cmds"], "stop_latency_s": [round(g["stop_latency"] or -1, 3) for g in res["gos"]]}, cap=10)
    if lat:
        c.extra["stop_latency_seconds_under_tsan"] = {"max": round(max(lat), 3), "median": round(sorted(lat)[len(lat) // 2], 3), "n": len(lat)}
    c.distinct = c.distinct + len(sessions)
    c.rule = ("(a) in-process Uci::loop with the search thread PARKED through the schedule hook at THREAD_START, GO_ENTRY, GO_INIT_DONE, "
              "GO_RESET_DONE, ITER_BEGIN(1..6), ITER_END(1..4), the k-th node visit (k=1..200, powers of two to 2^17, random), BEFORE_BESTMOVE, "
              "AFTER_BESTMOVE; `stop` is sent and executed (STOP_DONE) while parked; after release the node visits until the answer must "
              "stay <= 50,000 and exactly one bestmove must appear; isready must be answered while the search is parked; "
              "(b) ThreadSanitizer build, one go per process, random stop delays 0..200 ms and unsynchronised jitter in the search thread: "
              "reports whose racy address is the stop flag or whose stacks contain Search::stop/Uci::stop_command are violations; "
              "non-trivial = distinct (position, go, park point) scenarios + TSan sessions")
    c.assumptions = ["interleavings are controlled at hook granularity; between two hook points only TSan's happens-before analysis applies",
                     "promptness is decided in node visits, the 60 s watchdog only ends a scenario"]
    for pt in ["THREAD_START", "GO_ENTRY", "GO_INIT_DONE", "GO_RESET_DONE", "BEFORE_BESTMOVE", "AFTER_BESTMOVE", "ITER_BEGIN(d1)", "NODE(k<=200)",
               "NODE(k>200)"]:
        c.require("parked:" + pt, 10)
    if c.counters.get("inconclusive:watchdog-without-witness", 0):
        c.inconclusive.append("a schedule scenario hit the wall-clock watchdog without a logical witness (machine too slow?)")
    c.require("next-go-while-previous-search-thread-is-returning", 10)
    c.require("board-command-while-search-parked", 6)
    c.require("go-infinite-on-self-ending-root", 6)
    c.require("isready-while-search-parked", 100)
    c.require("tsan-sessions-with-stop-flag-address", 40)
    return c.finish()


CHECKS["C06"] = c06


MONITORS = {
    "api_monitor": ("asan", "rel"),
    "tables_monitor": ("asan", "rel"),
    "kpk_monitor": ("asan", "rel"),
    "time_monitor": ("asan", "rel"),
    "eval_monitor": ("asan", "rel"),
    "book_monitor": ("asan", "rel"),
    "search_monitor": ("asan", "rel"),
    "session_tool": ("rel",),
    "sched_monitor": ("asan",),
    "uci_main": ("tsan",),
}


def setup():
    core.ensure_selftest()
    for fl in ("asan", "rel", "tsan", "vg"):
        core.ensure_engine(fl)
    for m, fls in MONITORS.items():
        for fl in fls:
            core.ensure_monitor(fl, m)
    for d in ("evidence", "replay"):
        os.makedirs(os.path.join(core.ROOT, d), exist_ok=True)
    print("setup ok")
    return 0


def replay(prop, path):
    """Re-run the witness of a VIOLATION line. Position-level witnesses are replayed directly on the
    monitor (asan and rel flavours); everything else re-runs the check at the recorded seed and tier."""
    j = json.load(open(path))
    ex = j.get("example") or {}
    print("replaying %s key=%s" % (path, j.get("key")))
    api = {"C01", "C02", "C03", "C04", "C07", "C15", "C16", "C17", "C18"}
    if prop in api and isinstance(ex, dict) and ex.get("fen"):
        rc = 0
        for fl in ("asan", "rel"):
            exe = ensure_monitor(fl, "api_monitor")
            w = core.run_one([exe, "--prop", prop, "--fen", ex["fen"], "--games", "0", "--synth", "0"], 300)
            keys = [v["key"] for v in (w.json or {}).get("violations", [])]
            print("  flavour=%s rc=%s violation keys=%s" % (fl, w.rc, keys))
            if keys or w.rc != 0:
                rc = 1
        if rc:
            print("VIOLATION property=%s replay=%s" % (prop, path))
        return rc
    os.environ["VERIF_SEED"] = str(j.get("seed", 1))
    return CHECKS[prop](j.get("tier", "quick"), int(j.get("seed", 1)))
