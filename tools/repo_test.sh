#!/bin/bash
# rebuild /repo/_build (guard off) and run the stable suite; prints pass count
set -e
cd /repo
cmake --build _build 2>&1 | grep -E "error|FAILED" | head -20 || true
./_build/unitTests 2>&1 | grep -E "PASSED|FAILED" | head -20
