#!/usr/bin/env python3
"""Apply the reverse of every fix: commit (seeded/revert-*), run the property's quick check, record the outcome."""
import json, glob, os, subprocess
for d in sorted(glob.glob('/verif/seeded/revert-*')):
    m = json.load(open(d + '/meta.json'))
    props = m.get('properties') or [m['property']]
    r = subprocess.run(['git', '-C', '/repo', 'apply', '--check', d + '/patch.diff'], stderr=subprocess.PIPE, text=True)
    if r.returncode != 0:
        m['checks_run'] = {'error': 'does not apply to HEAD: ' + r.stderr[:200]}
    else:
        out = subprocess.run(['python3', '/verif/tools/run_mutant.py', d + '/patch.diff'] + props, stdout=subprocess.PIPE, text=True).stdout
        try:
            m['checks_run'] = json.loads(out)
        except ValueError:
            m['checks_run'] = {'error': out[-300:]}
    json.dump(m, open(d + '/meta.json', 'w'), indent=1)
    caught = [p for p, x in m['checks_run'].items() if isinstance(x, dict) and x.get('exit') == 1]
    print(os.path.basename(d), m['summary'][:60], 'caught_by=%s' % caught, json.dumps(m['checks_run'])[:200], flush=True)
