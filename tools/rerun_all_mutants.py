#!/usr/bin/env python3
"""Re-run every seeded change (sub-agent changes and fix reverts) against the CURRENT checks; record meta['final_run'].
Needs /repo exclusively (no vp run active)."""
import json, glob, os, subprocess, sys
only = sys.argv[1:]
tot = caught = 0
for d in sorted(glob.glob('/verif/seeded/*')):
    name = os.path.basename(d)
    if only and not any(name.startswith(o) for o in only):
        continue
    m = json.load(open(d + '/meta.json'))
    patch = d + '/patch.rebased.diff' if os.path.exists(d + '/patch.rebased.diff') else d + '/patch.diff'
    prop = m.get('property') or name[:3]
    props = [prop]
    r = subprocess.run(['git', '-C', '/repo', 'apply', '--check', patch], stderr=subprocess.PIPE, text=True)
    if r.returncode != 0:
        m['final_run'] = {'error': 'does not apply to HEAD'}
    else:
        out = subprocess.run(['python3', '/verif/tools/run_mutant.py', patch] + props, stdout=subprocess.PIPE, text=True).stdout
        try:
            m['final_run'] = json.loads(out)
        except ValueError:
            m['final_run'] = {'error': out[-300:]}
    json.dump(m, open(d + '/meta.json', 'w'), indent=1)
    ok = any(isinstance(x, dict) and x.get('exit') == 1 for x in m['final_run'].values())
    tot += 1
    caught += ok
    print(name, 'CAUGHT' if ok else 'MISSED', json.dumps(m['final_run'])[:160], flush=True)
print('total', tot, 'caught', caught)
