#!/usr/bin/env python3
"""Regenerates /verif/MANIFEST.json from the table below (maintainer tool)."""
import json, subprocess, sys
sys.path.insert(0, "/verif")

HOOK_COMMITS = subprocess.check_output(
    ["git", "-C", "/repo", "log", "--format=%h %s", "--grep=^verif hooks"], text=True).strip().splitlines()

P = {
 "C01": ("exploration", "differential testing vs independent rules oracle (runtime monitor, ASan/UBSan build)",
         "Every generated position's move list is compared as a set with an independent rules implementation: ~10^6 positions per quick run from oracle-played games and retro-legal templates that force pins x en passant x checks x castling. Sampling, not proof: holds on the positions listed in the evidence.", "4/C01"),
 "C02": ("exploration", "differential testing of do_move/fen vs oracle make-move (runtime monitor)",
         "All legal moves of every generated position and every game prefix: the six FEN fields after the move are compared with the oracle's. Special move classes have required minimum counts.", "4/C02"),
 "C03": ("exploration", "state-snapshot invariant monitor over do/undo, nested random walks and perft",
         "A snapshot of every observable (incl. history via a peek hook and static eval) must be identical after do/undo, null moves and arbitrarily nested walks; three piece representations cross-checked at every node.", "4/C03"),
 "C04": ("exploration", "online key-function monitor (position<->key maps, incremental vs from-scratch)",
         "Incremental key equals from-FEN key after every operation; process-wide maps detect one position with two keys or two positions with one key; shuffle games force transpositions (revisit counts reported).", "4/C04"),
 "C07": ("exploration", "history-replay monitor: predicates vs oracle game history",
         "The oracle replays each generated game keeping its own position strings and clock; all eight predicates are compared at every ply, with minimum counts of positions where each predicate is true.", "4/C07"),
 "C11": ("exploration", "exhaustive runtime enumeration vs coordinate-walk reference",
         "All 107,648 (square, relevant-occupancy) slider cases and every leaper/line table entry are enumerated at run time and compared with ray walks; exhaustive for the tables, sampled for arbitrary 64-bit occupancies. Fresh engine processes whose first command is perft/moves/printboard/staticeval are compared with the oracle (tables as a user meets them).", "4/C11"),
 "C12": ("exploration", "exhaustive runtime comparison with retrograde-analysis oracle",
         "All 662,704 legal KPK positions: bitbase, endgame evaluator and static evaluation classification vs an independent retrograde solution built with the oracle's move generator.", "4/C12"),
 "C13": ("exploration", "metamorphic monitor: score(P) == score(mirror(P))",
         "Mirror equality over game positions, synthetic positions and every specialised endgame class with both colours as strong side; minimum counts per class.", "4/C13"),
 "C14": ("exploration", "history monitor over evaluator caches with directed slot collisions and fresh-evaluator reference",
         "Long-lived evaluators with different histories and clear() points are compared with each other and with fresh evaluators; cache-slot collisions (incl. slot 0 + clear + pawnless) are constructed at run time; bounds checked on every evaluation.", "4/C14"),
 "C15": ("exploration", "differential testing of move predicates vs oracle make-move outcome",
         "capture / quiet / gives-check answers for every legal move compared with what the oracle observes after playing the move; promotions, castling, ep and discovered checks have required minimum counts.", "4/C15"),
 "C16": ("exploration", "round-trip monitor + exhaustive encoding enumeration",
         "uci/parse_uci round trip and text for every legal move; every Move/MoveInfo encoding enumerated; FEN print/load round trip of every position.", "4/C16"),
 "C17": ("exploration", "round-trip monitor with independent SAN resolver (ASan build)",
         "san(m) must parse back to m and be resolved to exactly {m} by an independent SAN resolver; disambiguation matrices, castling with check, >128-move positions required.", "4/C17"),
 "C18": ("exploration", "differential testing vs Polyglot specification with golden Random64",
         "Book key compared with the published algorithm over games and en-passant-matrix positions x all castling-right sets.", "4/C18"),
 "C20": ("exploration", "grid + random + monotone-sweep monitor in the -Ofast and UBSan builds; hook monitor of the working budget of live searches",
         "Non-negativity, 70% cap and monotonicity in the clock over a grid of ~10^7 points, random tuples and sweeps; UBSan arithmetic reports count as violations. The budget a running Search actually works with is read through the iteration hooks in clock-governed searches (forced-move roots, allotment at the cap, unstable scores) and must stay within 0..70% of the clock.", "4/C20"),
}
P.update({
 "C05": ("fault_enumeration", "in-process search monitor: hook-delivered stops at exact node visits + transposition-table fault injection; output judged by rules oracle",
         "Every go is answered by exactly one bestmove, legal per the oracle, every pv replayed on the oracle board; limits include 1 ms / negative budgets; stops are delivered deterministically at node visit k (all k=1..64 on sampled roots, random k to 10^5); table entries with illegal moves, extreme scores and stale epochs are injected under the exact keys of root/children/grandchildren.", "4/C05"),
 "C06": ("fault_enumeration", "schedule enumeration by parking the search thread at hook points + ThreadSanitizer with one go per process",
         "The search thread is parked at every listed schedule point while stop is delivered and executed; after release the answer must come within 50,000 node visits (logical bound) and exactly once; isready is answered while parked. Separately a TSan build with unsynchronised jitter decides race freedom of the stop signalling (reports matched by stop-flag address or stop-path frames).", "4/C06"),
 "C08": ("exploration", "search monitor with exhaustive AND/OR mate solver as oracle",
         "Mate-in-one roots must be answered by a mating move at every depth; every final mate announcement is decided by an independent exhaustive solver (unverified when the node budget runs out, never folded into held/violated).", "4/C08"),
 "C09": ("exploration", "search-output monitor for depth sequence, searchmoves and termination (node-visit cap as logical witness)",
         "info-depth sequences, searchmoves containment incl. root table entries outside the subset with and without epoch bump, depth limits beyond the internal maximum on cheap positions, termination of time/clock limits.", "4/C09"),
 "C10": ("exploration", "ASan+UBSan build with table-bound hooks and valgrind memcheck under oracle-generated well-formed UCI sessions",
         "Boundary-directed sessions on the real binary: 700..1500-ply games, depth limits to 100000, 218-move and ten-of-a-kind positions, forcing lines, multi-game sessions with every go argument; any ASan report, memory-kind UBSan report, intended-bound hook failure, memcheck error or abnormal exit is a violation.", "4/C10"),
 "C19": ("exploration", "file-level differential monitor with own parser + statistical test of the sampler",
         "Generated book files (empty, truncated, duplicate keys, zero weights): loaded multiset == complete records; contains/best/random checked against the monitor's own parse; 7-sigma binomial acceptance band over 2*10^4..2*10^5 draws per weight vector.", "4/C19"),
})
PENDING = {}

def main():
    from vlib import checks
    m = {
        "version": 1,
        "setup_cmd": "python3 bin/check --setup",
        "hooks": {
            "guard": "CHESSPP_VERIF",
            "enable": "bin/check compiles /repo/engine/*.cpp itself with -DCHESSPP_VERIF (vlib/core.py: COMMON flags); the CMake build never defines it",
            "baseline_off_cmd": "cmake --build /repo/_build && ctest --test-dir /repo/_build -j8 --timeout 900 --output-junit /tmp/verif_baseline_junit.xml",
            "source_commits": [l.split()[0] for l in HOOK_COMMITS],
            "add_only": True,
        },
        "engines": [{"name": "bin/check", "path": "/verif/bin/check", "serves_properties": sorted(checks.CHECKS),
                     "kind_free_text": "runtime monitors (C++ harnesses linked against the tree's sanitizer-instrumented objects) + python orchestrator"}],
        "checks": [],
        "not_applicable": [],
        "notes": "All checks: python3 bin/check <id> --tier quick|thorough; exit 0 held / 1 VIOLATION / 2 inconclusive. See DESIGN.md.",
    }
    for pid in sorted(checks.CHECKS):
        if pid not in P:
            continue
        cat, tech, text, ref = P[pid]
        m["checks"].append({
            "property_id": pid,
            "quick_cmd": "python3 bin/check %s --tier quick" % pid,
            "thorough_cmd": "python3 bin/check %s --tier thorough" % pid,
            "evidence_file": "/verif/evidence/%s.json" % pid,
            "replay_cmd_template": "python3 bin/check %s --replay {path}" % pid,
            "engine": "bin/check",
            "level_claimed": {"category": cat, "text": text, "design_ref": ref},
            "level_note": "Trusted base: /verif/oracle (independent rules implementation, self-tested on published perft counts, Polyglot vectors, textbook KPK) and the harness code; verdict covers only the executions listed in the evidence file.",
            "technique": tech,
        })
    for pid, why in sorted(PENDING.items()):
        if pid not in checks.CHECKS or pid not in P:
            m["not_applicable"].append({"property_id": pid, "reason": why})
    json.dump(m, open("/verif/MANIFEST.json", "w"), indent=1)
    print("manifest: %d checks, %d not_applicable" % (len(m["checks"]), len(m["not_applicable"])))

main()
