#!/usr/bin/env python3
import json, glob, os
rows=[]
for d in sorted(glob.glob('/verif/seeded/*')):
    m=json.load(open(os.path.join(d,'meta.json')))
    cr=dict(m.get('checks_run',{}))
    fr=m.get('final_run',{})
    if isinstance(fr,dict) and 'error' not in fr:
        cr.update(fr)   # the last run against the final checks wins for the properties it covers
    caught=[]
    for p,x in cr.items():
        if isinstance(x,dict) and x.get('exit')==1:
            caught.append("%s `%s`"%(p, (x.get('violation_keys') or ['?'])[0]))
    s=(m.get('summary') or '').replace('|','/').replace('\n',' ')
    s=s[:150]+('…' if len(s)>150 else '')
    rows.append("| %s | %s | %s | %s |"%(os.path.basename(d), s, '; '.join(caught) or '**not caught**', (m.get('strengthening') or '').replace('|','/')))
print("| id | change | caught by (first key) | note |\n|---|---|---|---|")
print("\n".join(rows))
