#!/usr/bin/env python3
"""mutant_pipeline.py <Cxx> [<Cxx> ...]: validate the sub-agent's two changes for each property, store confirmed ones
under /verif/seeded/<Cxx>-<k>/, run the property's quick check against each (applied to /repo, always undone)."""
import json, os, shutil, subprocess, sys, glob
for pid in sys.argv[1:]:
    for k in ("1", "2"):
        out = "/tmp/mut/%s/OUT" % pid
        if not os.path.exists(os.path.join(out, "meta%s.json" % k)):
            print(pid, k, "no meta"); continue
        cached = os.path.join(out, "validation%s.json" % k)   # written by an earlier stand-alone validate_mutant.py run
        if os.path.exists(cached):
            v = json.load(open(cached))
        else:
            v = json.loads(subprocess.run(["python3", "/verif/tools/validate_mutant.py", pid, k], stdout=subprocess.PIPE, text=True).stdout)
        dst = "/verif/seeded/%s-%s%s" % (pid, os.environ.get("MUT_ROUND", ""), k)
        os.makedirs(dst, exist_ok=True)
        shutil.copy(os.path.join(out, "patch%s.diff" % k), os.path.join(dst, "patch.diff"))
        for f in glob.glob(os.path.join(out, "demo%s.*" % k)):
            if os.path.isfile(f) and os.path.getsize(f) < 200000 and not os.access(f, os.X_OK) or f.endswith((".py", ".sh", ".cpp")):
                shutil.copy(f, dst)
        meta = json.load(open(os.path.join(out, "meta%s.json" % k)))
        meta["validation"] = {x: v.get(x) for x in ("applies", "builds", "tests_pass_with_patch", "demo_with_patch_rc", "demo_without_patch_rc", "confirmed")}
        props = [pid] + os.environ.get("MUT_EXTRA", "").split()
        r = subprocess.run(["python3", "/verif/tools/run_mutant.py", os.path.join(dst, "patch.diff")] + props, stdout=subprocess.PIPE, text=True)
        try:
            meta["checks_run"] = json.loads(r.stdout)
        except ValueError:
            meta["checks_run"] = {"error": r.stdout[-500:]}
        json.dump(meta, open(os.path.join(dst, "meta.json"), "w"), indent=1)
        caught = [p for p, x in meta["checks_run"].items() if isinstance(x, dict) and x.get("exit") == 1]
        print(pid, k, "confirmed=%s" % v.get("confirmed"), "caught_by=%s" % caught, json.dumps(meta["checks_run"])[:400], flush=True)
