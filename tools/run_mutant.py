#!/usr/bin/env python3
"""run_mutant.py <patch.diff> <Cxx> [<Cyy> ...]: apply a seeded change to /repo, run the named quick checks,
   ALWAYS undo it (git checkout -- .) and report which checks raised a VIOLATION."""
import json, os, subprocess, sys, time
patch = os.path.abspath(sys.argv[1]); props = sys.argv[2:]
def sh(cmd, **kw):
    return subprocess.run(cmd, shell=True, stdout=subprocess.PIPE, stderr=subprocess.STDOUT, text=True, **kw)
st = sh("git -C /repo status --porcelain --untracked-files=no").stdout.strip()
if st:
    print("refusing: /repo has local modifications:\n" + st); sys.exit(2)
r = sh("git -C /repo apply " + patch)
if r.returncode != 0:
    print("patch does not apply:", r.stdout); sys.exit(2)
out = {}
try:
    for p in props:
        t = time.time()
        tier = os.environ.get("MUT_TIER", "quick")
        r = sh("python3 /verif/bin/check %s --tier %s" % (p, tier), cwd="/verif", env=dict(os.environ, VERIF_EVIDENCE_SUFFIX=".mutant"))
        keys = [l.split("key=")[-1] for l in r.stdout.splitlines() if l.startswith("VIOLATION")]
        inc = [l for l in r.stdout.splitlines() if l.startswith("INCONCLUSIVE")]
        out[p] = {"exit": r.returncode, "violation_keys": keys[:8], "inconclusive": inc[:3], "wall": round(time.time() - t, 1)}
finally:
    sh("git -C /repo checkout -- .")
print(json.dumps(out, indent=1))
