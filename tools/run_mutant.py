#!/usr/bin/env python3
"""run_mutant.py <patch.diff> <Cxx> [<Cyy> ...]: apply a seeded change to /repo, run the named quick checks,
   ALWAYS undo it (git checkout -- .) and report which checks raised a VIOLATION."""
import json, os, subprocess, sys, time
patch = os.path.abspath(sys.argv[1]); props = sys.argv[2:]
# MUT_REPO: a scratch worktree of /repo at the same commit (used while /repo itself is busy with a long background run);
# the checks then build from it through VERIF_REPO. Default is /repo itself.
REPO = os.environ.get("MUT_REPO", "/repo")
def sh(cmd, **kw):
    return subprocess.run(cmd, shell=True, stdout=subprocess.PIPE, stderr=subprocess.STDOUT, text=True, **kw)
st = sh("git -C " + REPO + " status --porcelain --untracked-files=no").stdout.strip()
if st:
    print("refusing: " + REPO + " has local modifications:\n" + st); sys.exit(2)
r = sh("git -C " + REPO + " apply " + patch)
if r.returncode != 0:
    print("patch does not apply:", r.stdout); sys.exit(2)
out = {}
try:
    for p in props:
        t = time.time()
        tier = os.environ.get("MUT_TIER", "quick")
        r = sh("python3 /verif/bin/check %s --tier %s" % (p, tier), cwd="/verif", env=dict(os.environ, VERIF_EVIDENCE_SUFFIX=".mutant", VERIF_REPO=REPO))
        keys = [l.split("key=")[-1] for l in r.stdout.splitlines() if l.startswith("VIOLATION")]
        inc = [l for l in r.stdout.splitlines() if l.startswith("INCONCLUSIVE")]
        out[p] = {"exit": r.returncode, "violation_keys": keys[:8], "inconclusive": inc[:3], "wall": round(time.time() - t, 1)}
finally:
    sh("git -C " + REPO + " checkout -- .")
print(json.dumps(out, indent=1))
