#!/usr/bin/env python3
"""kf_add.py <property> <status:fixed|open> <key> <commit-or-> <example> <description>
Appends an entry to /verif/known_findings.json (maintainer tool; checks never write this file)."""
import json, sys, os
p = "/verif/known_findings.json"
d = json.load(open(p)) if os.path.exists(p) else {"findings": []}
prop, status, key, commit, example, desc = sys.argv[1:7]
e = {"property": prop, "key": key, "status": status, "example": example, "description": desc}
if status == "fixed":
    e["commit"] = commit
    e["line"] = "fixed: property=%s %s %s" % (prop, commit, desc)
else:
    e["line"] = "KNOWN-FINDING: property=%s %s" % (prop, desc)
d["findings"].append(e)
json.dump(d, open(p, "w"), indent=1)
print(e["line"])
