#!/usr/bin/env python3
"""One-off: extract the 781 Polyglot constants from the PINNED commit of
/repo (git object 8ca830c, not the working tree) and write them in the
published specification order to oracle/polyglot_random64.inc.
The result is committed; checks never regenerate it."""
import re, subprocess, sys
src = subprocess.check_output(["git", "-C", "/repo", "show", "8ca830c:engine/polyglot.cpp"], text=True)
body = src[src.index("POLYGLOT_PIECE"):src.index("PolyglotBook::PolyglotBook")]
piece_part = body[:body.index("POLYGLOT_CASTLING_WHITE_SHORT")]
nums = [int(x, 16) for x in re.findall(r"0x([0-9A-Fa-f]{16})ULL", piece_part)]
assert len(nums) == 12 * 64, len(nums)
# engine order: W_PAWN..W_KING, B_PAWN..B_KING, each 64 squares a1..h8
eng = {}
names = ["P","N","B","R","Q","K","p","n","b","r","q","k"]
for i, n in enumerate(names):
    eng[n] = nums[64*i:64*i+64]
spec_order = ["p","P","n","N","b","B","r","R","q","Q","k","K"]
out = []
for n in spec_order:
    out += eng[n]
def one(name):
    return int(re.search(name + r"\s*=\s*0x([0-9A-Fa-f]{16})ULL", body).group(1), 16)
out += [one("POLYGLOT_CASTLING_WHITE_SHORT"), one("POLYGLOT_CASTLING_WHITE_LONG"),
        one("POLYGLOT_CASTLING_BLACK_SHORT"), one("POLYGLOT_CASTLING_BLACK_LONG")]
ep = body[body.index("POLYGLOT_ENPASSANT"):body.index("POLYGLOT_TURN")]
epn = [int(x, 16) for x in re.findall(r"0x([0-9A-Fa-f]{16})ULL", ep)]
assert len(epn) == 8
out += epn
out.append(one("POLYGLOT_TURN"))
assert len(out) == 781 and len(set(out)) == 781
# published anchors (from the format description): Random64[0], [1], [780]
assert out[0] == 0x9D39247E33776D41 and out[1] == 0x2AF7398005AAA5C7 and out[780] == 0xF8D626AAAF278509
with open("/verif/oracle/polyglot_random64.inc", "w") as f:
    f.write("// Polyglot Random64[781] in specification order (golden copy, see tools/extract_random64.py)\n")
    for i in range(0, 781, 3):
        f.write("    " + ", ".join("0x%016XULL" % v for v in out[i:i+3]) + ",\n")
print("ok", len(out))
