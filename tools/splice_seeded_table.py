#!/usr/bin/env python3
"""Regenerate the table of section 9.4 in DESIGN.md from seeded/*/meta.json (tools/seeded_table.py)."""
import subprocess
p = '/verif/DESIGN.md'
s = open(p).read()
tab = subprocess.check_output(['python3', '/verif/tools/seeded_table.py'], text=True)
a = s.index('| id | change | caught by (first key) | note |')
b = s.index('### 9.5 Running it')
s = s[:a] + tab.rstrip('\n') + '\n\n' + s[b:]
open(p, 'w').write(s)
print('table rows:', tab.count('\n') - 2)
