#!/usr/bin/env python3
"""validate_mutant.py <Cxx> <k>: confirm a sub-agent's change in ITS scratch worktree /tmp/mut/<Cxx>:
   with the patch: builds, 47 unit tests pass, demo FAILS; without: demo PASSES."""
import json, os, subprocess, sys
pid, k = sys.argv[1], sys.argv[2]
wt = "/tmp/mut/%s" % pid
out = os.path.join(wt, "OUT")
meta = json.load(open(os.path.join(out, "meta%s.json" % k)))
def sh(cmd, timeout=1800):
    r = subprocess.run(cmd, shell=True, cwd=wt, stdout=subprocess.PIPE, stderr=subprocess.STDOUT, text=True, timeout=timeout)
    return r.returncode, r.stdout
def build():
    rc, o = sh("cmake -G Ninja -B _build -DFETCHCONTENT_SOURCE_DIR_GOOGLETEST=/usr/src/googletest -DFETCHCONTENT_FULLY_DISCONNECTED=ON >/dev/null 2>&1; cmake --build _build 2>&1 | tail -3")
    return rc, o
res = {"property": pid, "k": k, "summary": meta.get("summary"), "needs": meta.get("needs"), "demo_cmd": meta.get("demo_cmd")}
sh("git checkout -- . ; git clean -fdq -e OUT -e _build")
rc, o = sh("git apply OUT/patch%s.diff" % k)
res["applies"] = rc == 0
if rc != 0:
    res["error"] = o[-500:]
else:
    rc, o = build()
    res["builds"] = rc == 0 and "error" not in o.lower()
    rc, o = sh("./_build/unitTests 2>&1 | tail -3")
    res["tests_pass_with_patch"] = "PASSED  ] 47" in o
    try:
        rc, o = sh(meta["demo_cmd"], 900)
    except subprocess.TimeoutExpired:
        rc, o = 124, "timeout"
    res["demo_with_patch_rc"] = rc
    res["demo_with_patch_tail"] = o[-300:]
    sh("git checkout -- .")
    build()
    try:
        rc, o = sh(meta["demo_cmd"], 900)
    except subprocess.TimeoutExpired:
        rc, o = 124, "timeout"
    res["demo_without_patch_rc"] = rc
    res["demo_without_patch_tail"] = o[-200:]
res["confirmed"] = bool(res.get("applies") and res.get("builds") and res.get("tests_pass_with_patch") and res.get("demo_with_patch_rc") not in (0, None) and res.get("demo_without_patch_rc") == 0)
print(json.dumps(res, indent=1))
