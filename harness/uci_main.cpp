// The engine's main() verbatim, plus: install the hook callback selected by
// $CHESSPP_VERIF_MODE before the UCI loop starts.
//   jitter : unsynchronised usleep at GO_ENTRY / GO_INIT_DONE / first node visits
//            (no locks, no ordered atomics: adds no happens-before edge), and the
//            address of the stop flag is published on stderr so that race
//            reports can be matched by address.
#include "endgame.h"
#include "movegen.h"
#include "uci.h"
#include "verif_hooks.h"
#include "zobrist_hash.h"

#include <cstdio>
#include <cstdlib>
#include <unistd.h>

using namespace engine;

namespace
{
unsigned g_seed = 1;
volatile int g_printed = 0;

unsigned rnd()
{
    // racy on purpose-free: only ever called from the search thread
    g_seed = g_seed * 1103515245u + 12345u;
    return (g_seed >> 16) & 0x7fff;
}

void jitter(verif::Point p, const verif::Ctx& c)
{
    static long nodes = 0;
    switch (p)
    {
    case verif::GO_ENTRY:
        if (!g_printed)
        {
            g_printed = 1;
            fprintf(stderr, "VERIF-STOPFLAG %p\n", (const void*)c.stop_flag);
        }
        usleep(rnd() % 3000);
        break;
    case verif::THREAD_START:
    case verif::GO_INIT_DONE: usleep(rnd() % 3000); break;
    case verif::NODE:
    case verif::QNODE:
        if (++nodes < 50 || (nodes & 0xFFF) == 0) usleep(rnd() % 300);
        break;
    default: break;
    }
}
}  // namespace

int main()
{
    move_bitboards::init();
    zobrist::init();
    bitbase::init();
    endgame::init();

    const char* mode = getenv("CHESSPP_VERIF_MODE");
    if (mode && std::string(mode) == "jitter")
    {
        const char* s = getenv("CHESSPP_VERIF_SEED");
        g_seed = s ? unsigned(atoi(s)) * 2654435761u + 1u : 1u;
        verif::g_callback.store(jitter);
    }

    Uci uci;
    uci.loop();

    return 0;
}
