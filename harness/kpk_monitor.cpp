// C12: exhaustive comparison of the engine's KPK knowledge with the oracle's retrograde solution.
#include "common.h"
#include "glue.h"
#include "kpk.h"

#include "score.h"

using namespace engine;

namespace
{
vh::Recorder rec;
}

int main(int argc, char** argv)
{
    vh::Args args(argc, argv);
    vh::install_crash_handlers();
    int worker = int(args.num("worker", 0)), workers = int(args.num("workers", 1));
    glue::init_engine();
    const orc::KpkTruth& T = orc::KpkTruth::get();
    std::string why;
    if (!T.fixed_point_ok(&why))
    {
        fprintf(stderr, "VERIF-HARNESS oracle KPK fixed point broken: %s\n", why.c_str());
        return 3;
    }
    PositionScorer scorer;
    long n = 0;
    std::string cur;
    for (int pawn_color = 0; pawn_color < 2; ++pawn_color)
        for (int stm = 0; stm < 2; ++stm)
            for (int wk = 0; wk < 64; ++wk)
                for (int wp = 8; wp < 56; ++wp)
                {
                    if (((wk * 48 + wp) % workers) != worker) continue;
                    for (int bk = 0; bk < 64; ++bk)
                    {
                        if (!T.legal(stm, wk, wp, bk)) continue;
                        bool truth = T.white_wins(stm, wk, wp, bk);
                        orc::Board b;
                        b.sq[wk] = orc::WK;
                        b.sq[wp] = orc::WP;
                        b.sq[bk] = orc::BK;
                        b.stm = stm;
                        if (pawn_color == 1) b = b.mirrored();
                        cur = b.fen();
                        vh::set_case(cur.c_str(), "kpk");
                        Color strong = pawn_color == 0 ? WHITE : BLACK;
                        Position P(cur);
                        // (i) bitbase through normalize
                        Color side = P.color();
                        Square sk = P.piece_position(make_piece(strong, KING), 0);
                        Square wkq = P.piece_position(make_piece(!strong, KING), 0);
                        Square sp = P.piece_position(make_piece(strong, PAWN), 0);
                        bitbase::normalize(strong, side, sk, sp, wkq);
                        bool bb_win = bitbase::check(side, sk, sp, wkq);
                        // (ii) evaluator
                        Value v = endgame::score(P);
                        Value strong_v = P.color() == strong ? v : -v;
                        bool ev_win = strong_v >= VALUE_KNOWN_WIN;
                        // (iii) the full static evaluation the search uses
                        Value sv = scorer.score(P);
                        Value strong_sv = P.color() == strong ? sv : -sv;
                        bool sc_win = strong_sv >= VALUE_KNOWN_WIN;
                        rec.evaluations += 3;
                        ++n;
                        if (truth) rec.count(pawn_color ? "truth-win:black-pawn" : "truth-win:white-pawn");
                        else rec.count(pawn_color ? "truth-draw:black-pawn" : "truth-draw:white-pawn");
                        int rel_rank = wp >> 3;  // of the white-normalised pawn, 1..6
                        bool blocked2 = rel_rank == 1 && (wk == wp + 8 || bk == wp + 8);
                        std::string tail = std::string(truth ? "engine-draw-truth-win" : "engine-win-truth-draw") + ":pawn-rank" + std::to_string(rel_rank + 1) +
                                           (blocked2 ? ":king-in-front-of-2nd-rank-pawn" : "") + (stm == 0 ? ":strong-to-move" : ":weak-to-move");
                        auto exj = [&](const char* what, long long val) { return vh::J().str("fen", cur).str("observed", what).num("engine_value", val).str("truth", truth ? "win" : "draw").done(); };
                        if (bb_win != truth) rec.violation("bitbase:" + tail, exj("bitbase::check after normalize", bb_win));
                        if (ev_win != truth) rec.violation("evaluator:" + tail, exj("endgame::score", strong_v));
                        if (sc_win != truth) rec.violation("staticeval:" + tail, exj("PositionScorer::score", strong_sv));
                        if (!ev_win && strong_v < 0) rec.violation("evaluator:negative-for-pawn-side", exj("endgame::score", strong_v));
                        if (n % 50021 == 1) rec.sample(vh::J().str("fen", cur).str("truth", truth ? "win" : "draw").num("engine_strong_side_value", strong_v).done());
                        rec.nontrivial((uint64_t(pawn_color) << 40) | T.idx(stm, wk, wp, bk));
                        // the same position evaluated right AFTER a different ending with the same strong side (queen or rook in
                        // place of the pawn; what a search does all the time around a promotion): the answer must not depend on it
                        if ((n % 5) == 0)
                        {
                            orc::Board pr = b;
                            int psq = pawn_color == 0 ? wp : (wp ^ 56);
                            int strong_c = pawn_color == 0 ? orc::WHITE : orc::BLACK;
                            pr.sq[psq] = orc::make_pc(strong_c, (n % 10) == 0 ? orc::QUEEN : orc::ROOK);
                            if (pr.sq[psq] != orc::EMPTY && pr.retro_legal())
                            {
                                std::string pf = pr.fen();
                                vh::set_case(pf.c_str(), "kpk-primer");
                                Position R(pf);
                                (void)endgame::score(R);
                                (void)scorer.score(R);
                                vh::set_case(cur.c_str(), "kpk-after-other-endgame");
                                Value v2 = endgame::score(P);
                                Value s2 = P.color() == strong ? v2 : -v2;
                                Value sv2 = scorer.score(P);
                                Value ss2 = P.color() == strong ? sv2 : -sv2;
                                rec.evaluations += 2;
                                rec.count("kpk-evaluated-after-another-endgame");
                                if ((s2 >= VALUE_KNOWN_WIN) != truth || (ss2 >= VALUE_KNOWN_WIN) != truth)
                                    rec.violation(std::string("after-other-endgame:") + (truth ? "engine-draw-truth-win" : "engine-win-truth-draw"),
                                                  vh::J().str("evaluated_before", pf).str("kpk_fen", cur).num("endgame_score", s2).num("static_eval", ss2).str("truth", truth ? "win" : "draw").done());
                                else if (s2 != strong_v || ss2 != strong_sv)
                                    rec.count("observation:kpk-value-differs-after-another-endgame(same class; C14 territory)");
                            }
                        }
                        // the same position REACHED BY A CAPTURE from a four-man ending (what a game produces; piece lists,
                        // counts and keys then come from do_move, not from the FEN parser)
                        if ((n % 23) == 0)
                        {
                            int strong_c = pawn_color == 0 ? orc::WHITE : orc::BLACK;
                            int mover = 1 - b.stm;  // the side that just captured
                            int msq = b.king_sq(mover);
                            for (int df = -1; df <= 1; ++df)
                                for (int dr = -1; dr <= 1; ++dr)
                                {
                                    int f0 = orc::file_of(msq) + df, r0 = orc::rank_of(msq) + dr;
                                    if ((!df && !dr) || !orc::on_board(f0, r0)) continue;
                                    int from = orc::sq_of(f0, r0);
                                    if (b.sq[from] != orc::EMPTY) continue;
                                    orc::Board p0 = b;
                                    p0.sq[from] = p0.sq[msq];
                                    // victim: a second pawn of the strong side if the weak king captured, a knight of the weak side otherwise
                                    int victim = mover == strong_c ? orc::make_pc(1 - strong_c, orc::KNIGHT) : orc::make_pc(strong_c, orc::PAWN);
                                    if (orc::kind_of(victim) == orc::PAWN && (orc::rank_of(msq) == 0 || orc::rank_of(msq) == 7)) continue;
                                    p0.sq[msq] = victim;
                                    p0.stm = mover;
                                    p0.halfmove = 3;
                                    if (!p0.retro_legal()) continue;
                                    orc::Move cap{from, msq, 0};
                                    if (!p0.is_legal(cap)) continue;
                                    std::string f0s = p0.fen();
                                    vh::set_case(f0s.c_str(), "kpk-after-capture");
                                    Position Q(f0s);
                                    (void)scorer.score(Q);  // a search evaluates the parent before the child
                                    Q.do_move(glue::to_engine(cap, p0));
                                    Value qv = scorer.score(Q);
                                    Value q_strong = Q.color() == strong ? qv : -qv;
                                    bool q_win = q_strong >= VALUE_KNOWN_WIN;
                                    rec.evaluations++;
                                    rec.count(mover == strong_c ? "kpk-reached-by-capture:strong-king-takes-knight" : "kpk-reached-by-capture:weak-king-takes-pawn");
                                    if (q_win != truth)
                                        rec.violation(std::string("after-capture:") + (truth ? "engine-draw-truth-win" : "engine-win-truth-draw"),
                                                      vh::J().str("fen_before", f0s).str("capture", cap.uci()).str("kpk_fen", cur).num("engine_strong_side_value", q_strong).str("truth", truth ? "win" : "draw").done());
                                    df = dr = 2;  // one predecessor per position is enough
                                }
                        }
                    }
                }
    rec.count("kpk-positions", n);
    rec.count("oracle-kpk-legal-per-colour", worker == 0 ? T.n_legal : 0);
    rec.count("oracle-kpk-wins-per-colour", worker == 0 ? T.n_win : 0);
    rec.emit();
    return 0;
}
