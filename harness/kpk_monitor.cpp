// C12: exhaustive comparison of the engine's KPK knowledge with the oracle's retrograde solution.
#include "common.h"
#include "glue.h"
#include "kpk.h"

#include "score.h"

using namespace engine;

namespace
{
vh::Recorder rec;
}

int main(int argc, char** argv)
{
    vh::Args args(argc, argv);
    vh::install_crash_handlers();
    int worker = int(args.num("worker", 0)), workers = int(args.num("workers", 1));
    glue::init_engine();
    const orc::KpkTruth& T = orc::KpkTruth::get();
    std::string why;
    if (!T.fixed_point_ok(&why))
    {
        fprintf(stderr, "VERIF-HARNESS oracle KPK fixed point broken: %s\n", why.c_str());
        return 3;
    }
    PositionScorer scorer;
    long n = 0;
    std::string cur;
    for (int pawn_color = 0; pawn_color < 2; ++pawn_color)
        for (int stm = 0; stm < 2; ++stm)
            for (int wk = 0; wk < 64; ++wk)
                for (int wp = 8; wp < 56; ++wp)
                {
                    if (((wk * 48 + wp) % workers) != worker) continue;
                    for (int bk = 0; bk < 64; ++bk)
                    {
                        if (!T.legal(stm, wk, wp, bk)) continue;
                        bool truth = T.white_wins(stm, wk, wp, bk);
                        orc::Board b;
                        b.sq[wk] = orc::WK;
                        b.sq[wp] = orc::WP;
                        b.sq[bk] = orc::BK;
                        b.stm = stm;
                        if (pawn_color == 1) b = b.mirrored();
                        cur = b.fen();
                        vh::set_case(cur.c_str(), "kpk");
                        Color strong = pawn_color == 0 ? WHITE : BLACK;
                        Position P(cur);
                        // (i) bitbase through normalize
                        Color side = P.color();
                        Square sk = P.piece_position(make_piece(strong, KING), 0);
                        Square wkq = P.piece_position(make_piece(!strong, KING), 0);
                        Square sp = P.piece_position(make_piece(strong, PAWN), 0);
                        bitbase::normalize(strong, side, sk, sp, wkq);
                        bool bb_win = bitbase::check(side, sk, sp, wkq);
                        // (ii) evaluator
                        Value v = endgame::score(P);
                        Value strong_v = P.color() == strong ? v : -v;
                        bool ev_win = strong_v >= VALUE_KNOWN_WIN;
                        // (iii) the full static evaluation the search uses
                        Value sv = scorer.score(P);
                        Value strong_sv = P.color() == strong ? sv : -sv;
                        bool sc_win = strong_sv >= VALUE_KNOWN_WIN;
                        rec.evaluations += 3;
                        ++n;
                        if (truth) rec.count(pawn_color ? "truth-win:black-pawn" : "truth-win:white-pawn");
                        else rec.count(pawn_color ? "truth-draw:black-pawn" : "truth-draw:white-pawn");
                        int rel_rank = wp >> 3;  // of the white-normalised pawn, 1..6
                        bool blocked2 = rel_rank == 1 && (wk == wp + 8 || bk == wp + 8);
                        std::string tail = std::string(truth ? "engine-draw-truth-win" : "engine-win-truth-draw") + ":pawn-rank" + std::to_string(rel_rank + 1) +
                                           (blocked2 ? ":king-in-front-of-2nd-rank-pawn" : "") + (stm == 0 ? ":strong-to-move" : ":weak-to-move");
                        auto exj = [&](const char* what, long long val) { return vh::J().str("fen", cur).str("observed", what).num("engine_value", val).str("truth", truth ? "win" : "draw").done(); };
                        if (bb_win != truth) rec.violation("bitbase:" + tail, exj("bitbase::check after normalize", bb_win));
                        if (ev_win != truth) rec.violation("evaluator:" + tail, exj("endgame::score", strong_v));
                        if (sc_win != truth) rec.violation("staticeval:" + tail, exj("PositionScorer::score", strong_sv));
                        if (!ev_win && strong_v < 0) rec.violation("evaluator:negative-for-pawn-side", exj("endgame::score", strong_v));
                        if (n % 50021 == 1) rec.sample(vh::J().str("fen", cur).str("truth", truth ? "win" : "draw").num("engine_strong_side_value", strong_v).done());
                        rec.nontrivial((uint64_t(pawn_color) << 40) | T.idx(stm, wk, wp, bk));
                    }
                }
    rec.count("kpk-positions", n);
    rec.count("oracle-kpk-legal-per-colour", worker == 0 ? T.n_legal : 0);
    rec.count("oracle-kpk-wins-per-colour", worker == 0 ? T.n_win : 0);
    rec.emit();
    return 0;
}
