// In-process monitor for the search properties C05, C08, C09 (and the "a search never
// alters its position" part of C03). Drives engine::Search objects directly,
// captures what they print, delivers stops at exact node visits through the
// H-SCHED hook, injects hostile transposition-table entries (C05 only).
#include "common.h"
#include "gen.h"
#include "glue.h"
#include "judge.h"

#include "search.h"

#include <atomic>
#include <chrono>
#include <iostream>
#include <sstream>
#include <thread>

using namespace engine;
using orc::Board;

namespace
{
vh::Recorder rec;
std::string PROP;
orc::Rng* RNG;

// ---- hook state (single-threaded: Search::go runs on this thread)
long SOLVER_BUDGET = 300000;
long g_visits = 0, g_stop_at = -1, g_visit_cap = 0;
bool g_cap_hit = false;
long g_root_entries = 0;
std::string g_root_fen;
uint64_t g_root_hash = 0;
int g_root_hist = 0;
bool g_root_changed = false;
std::string g_root_changed_what;
long g_point[verif::POINT_NUM];

extern std::atomic<long> g_progress;
long g_root_in_iter = 0;
bool g_root_loop = false;
long g_iter_end_visits[16] = {0};
// C20 (live part): the time budget the running search works with, as the iteration loop sees it (hook argument b)
long long g_budget_first = -1, g_budget_max = -1, g_budget_min = -1;
long g_budget_obs = 0;
int g_budget_raised_at_depth = 0;

void hook(verif::Point p, const verif::Ctx& c)
{
    g_point[p]++;
    g_progress++;
    if (p == verif::ITER_BEGIN) g_root_in_iter = 0;
    if (p == verif::ITER_BEGIN || p == verif::ITER_END || p == verif::BEFORE_BESTMOVE)
    {
        long long b = c.b;
        if (g_budget_obs++ == 0) g_budget_first = g_budget_max = g_budget_min = b;
        if (b > g_budget_max)
        {
            g_budget_max = b;
            if (!g_budget_raised_at_depth && p != verif::BEFORE_BESTMOVE) g_budget_raised_at_depth = int(c.a);
        }
        if (b < g_budget_min) g_budget_min = b;
    }
    if (p == verif::ITER_END && c.a >= 0 && c.a < 16) g_iter_end_visits[c.a] = g_visits;
    if (p == verif::NODE || p == verif::QNODE)
    {
        ++g_visits;
        if (g_visits == g_stop_at) ((Search*)c.search)->stop();
        if (g_visit_cap && g_visits >= g_visit_cap && !g_cap_hit)
        {
            g_cap_hit = true;
            ((Search*)c.search)->stop();
        }
        if (p == verif::NODE && c.a == 0 && ++g_root_in_iter > 3000 && !g_root_loop)
        {
            // logical witness of a non-terminating aspiration loop: the root re-searched thousands of times in ONE iteration
            g_root_loop = true;
            ((Search*)c.search)->stop();
        }
        if (p == verif::NODE && c.a == 0 && PROP == "C03")
        {
            ++g_root_entries;
            if (c.position->hash() != g_root_hash || verif::PeekPosition::history_size(*c.position) != g_root_hist || c.position->fen() != g_root_fen)
            {
                g_root_changed = true;
                g_root_changed_what = c.position->fen();
            }
        }
    }
    if (p == verif::BEFORE_BESTMOVE && PROP == "C03")
    {
        if (c.position->hash() != g_root_hash || verif::PeekPosition::history_size(*c.position) != g_root_hist || c.position->fen() != g_root_fen)
        {
            g_root_changed = true;
            g_root_changed_what = c.position->fen();
        }
    }
}

// A deadlock inside Search::go() (e.g. an output lock left held) would hang this single-threaded monitor for good.
// A watchdog thread turns it into a verdict with a logical witness: inside go(), and not one node visit, schedule point
// or output byte for 60 s. It prints the case and leaves with a distinctive status.
std::atomic<long> g_progress{0};
std::atomic<bool> g_in_go{false};

void watchdog()
{
    long last = -1;
    int still = 0;
    for (;;)
    {
        std::this_thread::sleep_for(std::chrono::seconds(1));
        long now = g_progress.load();
        if (g_in_go.load() && now == last) ++still;
        else still = 0;
        last = now;
        if (still >= 60)
        {
            const char* msg = "\nVERIF-HANG inside Search::go(): no node visit or schedule point for 60 s\n";
            (void)!write(2, msg, strlen(msg));
            vh::print_case_async();
            _exit(43);
        }
    }
}

struct Rig
{
    PositionScorer scorer;
    tt::TTable table;
};

struct GoSpec
{
    int depth = 0;
    long long nodes = 0;
    int movetime = 0;
    int wtime = 0, btime = 0, winc = 0, binc = 0, movestogo = 0;
    bool infinite = false;
    std::vector<orc::Move> searchmoves;
    long stop_at = -1;
    std::string text() const
    {
        std::string s = "go";
        if (infinite) s += " infinite";
        if (depth) s += " depth " + std::to_string(depth);
        if (nodes) s += " nodes " + std::to_string(nodes);
        if (movetime) s += " movetime " + std::to_string(movetime);
        if (wtime || btime) s += " wtime " + std::to_string(wtime) + " btime " + std::to_string(btime);
        if (winc || binc) s += " winc " + std::to_string(winc) + " binc " + std::to_string(binc);
        if (movestogo) s += " movestogo " + std::to_string(movestogo);
        if (!searchmoves.empty()) s += " searchmoves " + glue::moves_str(searchmoves);
        if (stop_at >= 0) s += " [stop at node visit " + std::to_string(stop_at) + "]";
        return s;
    }
};

struct RunResult
{
    judge::GoOutput out;
    std::string text;
    long visits = 0;
    bool cap_hit = false;
    bool root_loop = false;
    bool stopped_before_iter1 = false;
};

RunResult run_go(Rig& rig, const Position& P, const Board& B, const GoSpec& g, long visit_cap)
{
    Limits lim;
    lim.depth = g.depth;
    lim.nodes = g.nodes;
    lim.movetime = g.movetime;
    lim.timeleft[WHITE] = g.wtime;
    lim.timeleft[BLACK] = g.btime;
    lim.timeinc[WHITE] = g.winc;
    lim.timeinc[BLACK] = g.binc;
    lim.movestogo = g.movestogo;
    lim.infinite = g.infinite;
    lim.mate = 0;
    for (const orc::Move& m : g.searchmoves) lim.searchmoves[lim.searchmovesnum++] = glue::to_engine(m, B);
    std::ostringstream cap;
    std::streambuf* old = std::cout.rdbuf(cap.rdbuf());
    g_visits = 0;
    g_stop_at = g.stop_at;
    g_visit_cap = visit_cap;
    g_cap_hit = false;
    g_root_loop = false;
    g_root_in_iter = 0;
    g_root_entries = 0;
    g_budget_obs = 0;
    g_budget_first = g_budget_max = g_budget_min = -1;
    g_budget_raised_at_depth = 0;
    g_root_changed = false;
    g_root_fen = P.fen();
    g_root_hash = P.hash();
    g_root_hist = verif::PeekPosition::history_size(P);
    long iter_done_before = g_point[verif::ITER_END];
    {
        Search s(P, lim, rig.scorer, rig.table);
        g_in_go = true;
        s.go();
        g_in_go = false;
    }
    std::cout.rdbuf(old);
    RunResult r;
    r.text = cap.str();
    r.out = judge::parse(r.text);
    r.visits = g_visits;
    r.cap_hit = g_cap_hit;
    r.root_loop = g_root_loop;
    r.stopped_before_iter1 = r.out.infos.empty();
    (void)iter_done_before;
    return r;
}

// ---- table poisoning (fault injection; only legality is judged afterwards)
void poison(Rig& rig, const Position& P0, const Board& B, int level)
{
    static const Value SCORES[] = {0, 50, -50, 100000, -100000, VALUE_MATE - 3, -(VALUE_MATE - 3), VALUE_INFINITE, -VALUE_INFINITE, VALUE_NONE, VALUE_KNOWN_WIN, -VALUE_KNOWN_WIN};
    auto bad_move = [&](const Board& b) -> Move {
        switch (RNG->below(6))
        {
        case 0: return NO_MOVE;
        case 1: return create_castling(RNG->below(2) ? KING_CASTLING : QUEEN_CASTLING);
        case 2: return create_promotion(Square(RNG->below(64)), Square(RNG->below(64)), PieceKind(KNIGHT + RNG->below(4)));
        case 3: return create_move(Square(RNG->below(64)), Square(RNG->below(64)));
        case 4:
        {
            // a move that is legal for the OTHER side / in a sibling position
            Board o = b;
            o.stm = 1 - o.stm;
            o.ep = -1;
            std::vector<orc::Move> ps;
            o.pseudo_legal(ps);
            if (!ps.empty())
            {
                const orc::Move& m = ps[RNG->below(uint32_t(ps.size()))];
                return create_promotion(Square(m.from), Square(m.to), PieceKind(m.promo));
            }
            return NO_MOVE;
        }
        default:
        {
            // pseudo-legal but illegal (leaves the king in check) if there is one
            std::vector<orc::Move> ps, lg = b.legal();
            b.pseudo_legal(ps);
            for (const orc::Move& m : ps)
                if (std::find(lg.begin(), lg.end(), m) == lg.end()) return create_promotion(Square(m.from), Square(m.to), PieceKind(m.promo));
            return create_move(Square(RNG->below(64)), Square(RNG->below(64)));
        }
        }
    };
    auto put = [&](const Position& p, const Board& b) {
        tt::TTEntry e(SCORES[RNG->below(12)], int32_t(RNG->below(4) == 0 ? 200 : RNG->below(12)), tt::Flag(RNG->below(3)), bad_move(b));
        rig.table.insert(p.hash(), e);
        rec.count("poisoned-entries");
    };
    Position P = P0;
    put(P, B);
    if (level < 1) return;
    for (const orc::Move& m : B.legal())
    {
        Move em = glue::to_engine(m, B);
        MoveInfo mi = P.do_move(em);
        Board C = B.after(m);
        if (RNG->below(4) != 0) put(P, C);
        if (level >= 2 && RNG->below(3) == 0)
            for (const orc::Move& m2 : C.legal())
            {
                if (RNG->below(4)) continue;
                Move em2 = glue::to_engine(m2, C);
                MoveInfo mi2 = P.do_move(em2);
                put(P, C.after(m2));
                P.undo_move(em2, mi2);
            }
        P.undo_move(em, mi);
    }
    if (RNG->below(2)) rig.table.updateEpoch(1);  // stale epoch
}

// ---- root positions
Board random_root(int i)
{
    for (;;)
    {
        Board b;
        int t = i % 6;
        if (t <= 1)
        {
            b = t == 0 ? Board::startpos() : Board::fen(gen::CORPUS[RNG->below(gen::CORPUS_N)]);
            gen::Policy pol;
            gen::Game g = gen::random_game(*RNG, b, int(RNG->below(70)), pol, "root");
            for (const orc::Move& m : g.moves) b = b.after(m);
        }
        else if (t == 2)
            b = Board::fen(gen::CORPUS[RNG->below(gen::CORPUS_N)]);
        else
            b = gen::synth(*RNG, int(RNG->below(gen::T_COUNT)));
        if (b.has_legal() && b.halfmove <= 140) return b;
    }
}

// mate-in-N skeletons: a cornered king and heavy attackers
Board mate_candidate()
{
    for (;;)
    {
        Board b;
        b.stm = RNG->below(2);
        int us = b.stm, them = 1 - us;
        int kf = RNG->chance(0.6) ? (RNG->below(2) ? 0 : 7) : int(RNG->below(8));
        int kr = RNG->chance(0.8) ? (them == orc::WHITE ? 0 : 7) : int(RNG->below(8));
        gen::put(b, orc::sq_of(kf, kr), orc::make_pc(them, orc::KING));
        // pawn shield
        int dr = them == orc::WHITE ? 1 : -1;
        for (int df = -1; df <= 1; ++df)
            if (orc::on_board(kf + df, kr + dr) && RNG->chance(0.6)) gen::put(b, orc::sq_of(kf + df, kr + dr), orc::make_pc(them, orc::PAWN));
        static const int A[] = {orc::QUEEN, orc::ROOK, orc::ROOK, orc::KNIGHT, orc::BISHOP, orc::PAWN};
        for (int i = 1 + RNG->below(3); i > 0; --i) gen::put(b, RNG->below(64), orc::make_pc(us, A[RNG->below(6)]));
        for (int i = RNG->below(3); i > 0; --i) gen::put(b, RNG->below(64), orc::make_pc(them, gen::rand_kind(*RNG)));
        gen::put_kings(*RNG, b);
        if (b.retro_legal() && gen::promotions_stay_in_domain(b) && b.has_legal()) return b;
    }
}

// sparse-material mates: K + {NN, BN, BB, R, Q, ...} against a (nearly) bare king, kept only if a mate in one exists
Board sparse_mate_in_one()
{
    static const char* SETS[] = {"NN", "NN", "BN", "BB", "R", "Q", "RN", "NNP", "BP", "NP", "QN", "RB"};
    for (;;)
    {
        Board b;
        b.stm = RNG->below(2);
        int us = b.stm, them = 1 - us;
        int kf = RNG->below(2) ? (RNG->below(2) ? 0 : 7) : int(RNG->below(8));
        int kr = RNG->below(2) ? (RNG->below(2) ? 0 : 7) : int(RNG->below(8));
        if (RNG->below(3)) kr = RNG->below(2) ? 0 : 7;
        int ksq = orc::sq_of(kf, kr);
        gen::put(b, ksq, orc::make_pc(them, orc::KING));
        auto near = [&](int dist) {
            for (;;)
            {
                int f = kf + int(RNG->below(2 * dist + 1)) - dist, r = kr + int(RNG->below(2 * dist + 1)) - dist;
                if (orc::on_board(f, r)) return orc::sq_of(f, r);
            }
        };
        gen::put(b, near(2), orc::make_pc(us, orc::KING));
        const char* set = SETS[RNG->below(12)];
        for (const char* p = set; *p; ++p)
        {
            int kind = *p == 'N' ? orc::KNIGHT : *p == 'B' ? orc::BISHOP : *p == 'R' ? orc::ROOK : *p == 'Q' ? orc::QUEEN : orc::PAWN;
            gen::put(b, near(3), orc::make_pc(us, kind));
        }
        if (RNG->below(4) == 0) gen::put(b, near(2), orc::make_pc(them, RNG->below(2) ? orc::PAWN : orc::KNIGHT));
        if (b.king_sq(0) < 0 || b.king_sq(1) < 0 || !b.retro_legal() || !gen::promotions_stay_in_domain(b)) continue;
        if (!orc::mating_moves_in_one(b).empty()) return b;
    }
}

long g_quiet_defence_roots = 0;

// roots where the side to move can create a one-move mate THREAT against a defender who is not in check, has many
// legal moves and at least one defence: pruning that hides the few defences turns the threat into a false mate claim
bool threat_root(Board& out)
{
    for (int tries = 0; tries < 400; ++tries)
    {
        Board b = mate_candidate();
        // give the defender more material so that he has many moves
        int them = 1 - b.stm;
        for (int i = 3 + RNG->below(5); i > 0; --i) gen::put(b, RNG->below(64), orc::make_pc(them, gen::rand_kind(*RNG)));
        for (int i = RNG->below(3); i > 0; --i) gen::put(b, RNG->below(64), orc::make_pc(b.stm, gen::rand_kind(*RNG)));
        if (!b.retro_legal() || !gen::promotions_stay_in_domain(b) || !orc::mating_moves_in_one(b).empty()) continue;
        for (const orc::Move& m : b.legal())
        {
            Board d = b.after(m);
            if (d.in_check(d.stm)) continue;
            std::vector<orc::Move> dl = d.legal();
            if (dl.size() <= 12) continue;
            Board n = d.after_null();
            std::vector<orc::Move> threats = orc::mating_moves_in_one(n);
            if (threats.empty()) continue;
            // at least one defence must exist (otherwise the claim would be true); the interesting roots are those
            // where the defences are few and quiet (a pruning scheme that drops late quiet moves hides them)
            int defences = 0, loud = 0;
            for (const orc::Move& r : dl)
                if (orc::mating_moves_in_one(d.after(r)).empty())
                {
                    ++defences;
                    Board dr = d.after(r);
                    if (d.is_capture(r) || r.promo || dr.in_check(dr.stm)) ++loud;
                }
            if (defences == 0) continue;
            bool strict = tries < 300;
            if (strict && (defences > 3 || loud > 0 || dl.size() < 16)) continue;
            if (defences <= 3 && loud == 0) ++g_quiet_defence_roots;
            out = b;
            return true;
        }
    }
    return false;
}

// a tempting capture (of a queen) that walks into a mate in one, while other moves are fine: the depth-1 favourite is
// refuted at depth 2 - whatever an aborted search leaves behind at that moment must not become a mate claim
bool greedy_capture_root(Board& out)
{
    for (int tries = 0; tries < 3000; ++tries)
    {
        Board b;
        b.stm = orc::WHITE;
        int kf = 5 + int(RNG->below(3));  // king f1..h1 behind its pawns
        gen::put(b, orc::sq_of(kf, 0), orc::WK);
        for (int df = -1; df <= 1; ++df)
            if (orc::on_board(kf + df, 1)) gen::put(b, orc::sq_of(kf + df, 1), orc::WP);
        int x = int(RNG->below(5)), y = int(RNG->below(5));
        if (x == y) continue;
        gen::put(b, orc::sq_of(x, 0), orc::WR);
        gen::put(b, orc::sq_of(x, 4 + int(RNG->below(3))), orc::BQ);
        gen::put(b, orc::sq_of(y, 5 + int(RNG->below(3))), RNG->below(3) ? orc::BR : orc::BQ);
        gen::put(b, orc::sq_of(5 + int(RNG->below(3)), 7), orc::BK);
        for (int i = 2 + int(RNG->below(4)); i > 0; --i) gen::put(b, orc::sq_of(int(RNG->below(8)), 1 + int(RNG->below(6))), RNG->below(2) ? orc::BP : orc::WP);
        for (int i = int(RNG->below(4)); i > 0; --i) gen::put(b, RNG->below(64), orc::make_pc(int(RNG->below(2)), RNG->below(2) ? orc::KNIGHT : orc::BISHOP));
        if (RNG->below(2)) gen::put(b, RNG->below(64), orc::WQ);
        if (b.king_sq(0) < 0 || b.king_sq(1) < 0 || !b.retro_legal() || !gen::promotions_stay_in_domain(b) || b.in_check(b.stm)) continue;
        if (!orc::mating_moves_in_one(b).empty()) continue;
        bool tempting = false;
        int safe = 0;
        for (const orc::Move& m : b.legal())
        {
            bool mated = !orc::mating_moves_in_one(b.after(m)).empty();
            if (mated && b.sq[m.to] == orc::BQ) tempting = true;
            if (!mated) ++safe;
        }
        if (!tempting || safe < 3) continue;
        out = RNG->below(2) ? b.mirrored() : b;
        return true;
    }
    return false;
}

std::string ctx_stop(const GoSpec& g, const RunResult& r)
{
    if (g.stop_at < 0) return "none";
    return r.stopped_before_iter1 ? "before-iter1" : "later";
}

void judge_all(const Board& B, const GoSpec& g, const RunResult& r, const std::string& table)
{
    judge::Ctx c;
    c.table = table;
    c.stop = ctx_stop(g, r);
    c.limits = g.text();
    rec.evaluations++;
    rec.count("searches");
    rec.count("searches:" + table);
    rec.count("stop:" + c.stop);
    rec.count("node-visits", r.visits);
    if (PROP == "C05") judge::c05(rec, B, r.out, c);
    if (PROP == "C09")
    {
        judge::c09(rec, B, r.out, c, g.infinite ? 0 : g.depth, g.searchmoves);
        if (r.root_loop)
            rec.violation("no-termination:aspiration-loop", judge::exj(B, c, "the root was re-searched more than 3000 times within one iteration", std::to_string(r.visits), r.out));
        // the node-visit cap is a verdict only where a TIME budget of at most a few seconds governs the search; a depth-limited
        // search may legitimately be long (no finite run decides its termination: counted as unverified)
        int stm_clock = B.stm == orc::WHITE ? g.wtime : g.btime;
        bool time_governed = !g.infinite && g.depth == 0 && ((g.movetime != 0 && g.movetime <= 5000) || (g.movetime == 0 && stm_clock != 0 && stm_clock <= 5000));
        if (r.cap_hit && time_governed)
            rec.violation("no-termination:visit-cap:" + std::string(g.movetime ? "movetime" : "clock"), judge::exj(B, c, "time-limited search exceeded the node-visit cap and had to be stopped", std::to_string(r.visits), r.out));
        else if (r.cap_hit)
            rec.count("termination-unverified(visit cap hit on a depth-limited search)");
    }
    if (PROP == "C08" && table != "poisoned") judge::c08(rec, B, r.out, c, SOLVER_BUDGET);
    if (PROP == "C03")
    {
        rec.count("root-entries-snapshotted", g_root_entries);
        if (g_root_changed)
            rec.violation("search-altered-root:" + table, vh::J().str("fen", B.fen()).str("go", g.text()).str("root_seen_as", g_root_changed_what).done());
    }
    rec.nontrivial(vh::fnv(B.key4() + g.text() + table));
    if (rec.samples.size() < rec.max_samples && RNG->below(40) == 0)
        rec.sample(vh::J().str("fen", B.fen()).str("go", g.text()).str("table", table).str("bestmove", r.out.bestmoves.empty() ? "" : r.out.bestmoves[0]).str("last_info", r.out.infos.empty() ? "" : r.out.infos.back().raw).done());
}

std::string cur_fen, cur_go;
void set_cur(const Board& B, const GoSpec& g, const std::string& table)
{
    cur_fen = B.fen();
    cur_go = g.text() + " table=" + table;
    vh::set_case(cur_fen.c_str(), cur_go.c_str());
}

std::vector<orc::Move> subset(const std::vector<orc::Move>& legal, int n)
{
    std::vector<orc::Move> v = legal;
    for (size_t i = v.size(); i > 1; --i) std::swap(v[i - 1], v[RNG->below(uint32_t(i))]);
    if (int(v.size()) > n) v.resize(n);
    return v;
}

}  // namespace

int main(int argc, char** argv)
{
    vh::Args args(argc, argv);
    vh::install_crash_handlers();
    PROP = args.str("prop", "C05");
    orc::Rng rng(uint64_t(args.num("seed", 1)) * 0xA24BAED4963EE407ULL + 3);
    RNG = &rng;
    glue::init_engine();
    verif::g_callback.store(hook);
    std::thread(watchdog).detach();
    Rig* rig = new Rig;
    long n = args.num("searches", 100);
    int maxdepth = int(args.num("maxdepth", 5));
    const long CAP = args.num("cap", 30000000);
    SOLVER_BUDGET = args.num("budget", 300000);

    if (args.has("fen"))
    {
        Board B = Board::fen(args.str("fen"));
        Position P(B.fen());
        GoSpec g;
        g.depth = int(args.num("depth", 0));
        g.movetime = int(args.num("movetime", 0));
        g.nodes = args.num("nodes", 0);
        g.infinite = args.has("infinite");
        g.stop_at = args.num("stopat", -1);
        RunResult r = run_go(*rig, P, B, g, CAP);
        fprintf(stderr, "%s", r.text.c_str());
        judge_all(B, g, r, "fresh");
        rec.emit();
        return 0;
    }

    if (PROP == "C20")
    {
        // The allotment as the running search uses it: every budget value the iteration loop works with (read at the start
        // and end of each iteration and right before bestmove) must stay within 0 .. 70% of the mover's clock. Verdicts are
        // on these values, never on elapsed wall time.
        for (long i = 0; i < n; ++i)
        {
            Board B;
            bool single = false;
            if (i % 4 == 0)
            {
                // roots with exactly one legal move (the engine treats them specially)
                for (int tries = 0; tries < 400 && !single; ++tries)
                {
                    if (tries % 8 == 0 && gen::only_ep_evasion(rng, B, 2000) && B.legal().size() == 1)
                    {
                        single = true;
                        break;
                    }
                    Board b = tries % 2 ? gen::synth(rng, gen::T_CHECK) : Board::fen(gen::CORPUS[rng.below(gen::CORPUS_N)]);
                    gen::Policy pol;
                    gen::Game gm = gen::random_game(rng, b, 60, pol, "root");
                    for (const orc::Move& m : gm.moves)
                    {
                        b = b.after(m);
                        if (b.legal().size() == 1 && b.halfmove <= 140)
                        {
                            B = b;
                            single = true;
                            break;
                        }
                    }
                }
                if (!single) B = random_root(int(i));
            }
            else
                B = random_root(int(i % 3));  // played-out games and corpus positions: loose pieces, unstable scores
            std::vector<orc::Move> legal = B.legal();
            single = legal.size() == 1;
            Position P(B.fen());
            if (i % 5 == 0)
            {
                rig->table.clear();
                rig->scorer.clear();
            }
            else
                rig->table.updateEpoch(1);
            GoSpec g;
            bool cap_regime = i % 4 != 0 && rng.below(10) < 6;
            int T, inc = 0, mtg = 0;
            if (cap_regime)
            {
                // the allotment sits at (or near) the 70% cap: last moves before the time control, or increment above the clock
                T = 1200 + int(rng.below(2600));
                if (rng.below(3)) mtg = 1 + int(rng.below(2));
                else inc = T + int(rng.below(3000));
            }
            else
            {
                static const int TT[] = {1, 2, 7, 30, 100, 250, 600, 713, 714, 715, 1500, 3000};
                static const int II[] = {0, 0, 0, 50, 1000, 10000};
                static const int MM[] = {0, 0, 1, 2, 3, 10, 40, 200};
                T = TT[rng.below(12)];
                inc = II[rng.below(6)];
                mtg = MM[rng.below(8)];
            }
            int other = rng.below(2) ? 1 : 600000;  // the opponent's clock must not matter
            g.wtime = B.stm == orc::WHITE ? T : other;
            g.btime = B.stm == orc::WHITE ? other : T;
            g.winc = B.stm == orc::WHITE ? inc : 600000 - inc;
            g.binc = B.stm == orc::WHITE ? 600000 - inc : inc;
            g.movestogo = mtg;
            std::string table = "warm";
            set_cur(B, g, table);
            RunResult r = run_go(*rig, P, B, g, CAP);
            rec.evaluations++;
            rec.count("live-searches");
            rec.count(single ? "live-searches:single-legal-move" : "live-searches:several-legal-moves");
            if (cap_regime) rec.count("live-searches:allotment-at-the-cap");
            rec.count("live-budget-observations", g_budget_obs);
            rec.count("node-visits", r.visits);
            // what the search went through: finished iterations and score swings (a budget extension keyed on them would show here)
            int maxd = 0, drops = 0;
            for (size_t k = 0; k < r.out.infos.size(); ++k)
            {
                const judge::Info& a = r.out.infos[k];
                maxd = std::max(maxd, a.depth);
                if (k && a.depth > 4 && !a.has_mate && !r.out.infos[k - 1].has_mate && std::abs(a.score - r.out.infos[k - 1].score) > 100) ++drops;
            }
            rec.counters["max-iteration-finished"] = std::max<long long>(rec.counters["max-iteration-finished"], maxd);
            if (maxd >= 6) rec.count("live-searches:finished-iteration>=6");
            if (drops) rec.count("live-searches:score-swing>100cp-after-depth-4");
            if (drops && cap_regime) rec.count("live-searches:score-swing-with-allotment-at-the-cap");
            auto exj = [&]() {
                return vh::J().str("fen", B.fen()).str("go", g.text()).num("clock_ms", T).num("budget_at_first_iteration", g_budget_first).num("budget_max", g_budget_max)
                    .num("budget_min", g_budget_min).num("raised_at_depth", g_budget_raised_at_depth).num("legal_root_moves", (long long)legal.size()).done();
            };
            if (g_budget_max > 0) rec.count("live-searches:budget-positive");
            if (g_budget_obs == 0) rec.count("live-searches:no-budget-observation");
            else
            {
                std::string ctx = single ? "single-legal-move" : g_budget_max > g_budget_first ? "raised-during-search" : "from-the-first-iteration";
                if (g_budget_min < 0) rec.violation("live-budget-negative:" + ctx, exj());
                if (10 * g_budget_max > 7LL * T) rec.violation("live-budget-above-70%:" + ctx, exj());
            }
            rec.nontrivial(vh::fnv(B.key4() + g.text()));
            if (rec.samples.size() < rec.max_samples && rng.below(10) == 0) rec.sample(exj());
        }
        for (int p = 0; p < verif::POINT_NUM; ++p) rec.count("hook-point-" + std::to_string(p), g_point[p]);
        rec.emit();
        return 0;
    }

    for (long i = 0; i < n; ++i)
    {
        Board B;
        if (PROP == "C08")
        {
            int sel = int(i % 6);
            if (sel == 0 || sel == 1) B = mate_candidate();
            else if (sel == 2) B = sparse_mate_in_one();
            else if (sel == 3 || sel == 4)
            {
                long before = g_quiet_defence_roots;
                if (threat_root(B))
                {
                    rec.count("roots:mate-threat-with-few-defences");
                    if (g_quiet_defence_roots > before) rec.count("roots:mate-threat-all-defences-quiet");
                }
                else B = mate_candidate();
            }
            else B = random_root(int(i));
            if (sel == 2) rec.count("roots:sparse-material-mate-in-one");
            // the 50-move count must not hide a mate: clocks right at and beyond the 50-move mark (play is legal up to 150)
            if (sel <= 2 && rng.below(3) == 0)
            {
                static const int CLK[] = {98, 99, 100, 101, 120, 149};
                B.halfmove = CLK[rng.below(6)];
                if (!orc::mating_moves_in_one(B).empty()) rec.count("roots:mate-in-one-with-clock>=98");
            }
        }
        else if (PROP == "C09" && i % 4 == 1)
        {
            // forced mates: the iteration that first sees the mate must still respect the depth limit
            B = (i % 8 == 1) ? mate_candidate() : sparse_mate_in_one();
            rec.count("roots:mate-positions");
        }
        else
            B = random_root(int(i));
        std::vector<orc::Move> legal = B.legal();
        std::string fen = B.fen();
        Position P(fen);
        // table state
        std::string table = "warm";
        int ts = int(i % 8);
        if (ts == 0)
        {
            rig->table.clear();
            rig->scorer.clear();
            table = "fresh";
        }
        else if (PROP == "C05" && ts >= 5)
        {
            poison(*rig, P, B, ts - 5);
            table = "poisoned";
        }
        else
            rig->table.updateEpoch(1);  // what `position` does between searches
        GoSpec g;
        int kind = int(rng.below(PROP == "C09" ? 8 : 10));
        if (PROP == "C08") kind = rng.below(4) ? 0 : 7;
        bool threat = PROP == "C08" && (i % 6 == 3 || i % 6 == 4);
        if (PROP != "C08" && rng.below(5) == 0) kind = 100;  // limit combinations
        switch (kind)
        {
        case 0:
        case 1:
        case 2: g.depth = 1 + int(rng.below(maxdepth)); break;
        case 3:
        {
            static const long NN[] = {1, 2, 10, 100, 5000, 20000};
            g.nodes = NN[rng.below(6)];
            if (rng.below(2)) g.depth = 1 + int(rng.below(maxdepth));
            break;
        }
        case 4:
        {
            static const int MT[] = {1, 5, 20, -5};
            g.movetime = MT[rng.below(4)];
            break;
        }
        case 5:
        {
            static const int CL[] = {0, 1, -1, 50, 300, 2000};
            g.wtime = CL[rng.below(6)];
            g.btime = CL[rng.below(6)];
            if (rng.below(2)) g.winc = g.binc = int(rng.below(3)) * 1000;
            if (rng.below(3) == 0) g.movestogo = 1 + int(rng.below(3));
            if (g.wtime == 0 && g.btime == 0) g.depth = 2;  // would fall back to depth 7
            break;
        }
        case 6:
        {
            g.depth = 1 + int(rng.below(maxdepth));
            g.searchmoves = subset(legal, 1 + int(rng.below(3)));
            break;
        }
        case 7:
        {
            g.depth = 1 + int(rng.below(std::max(1, maxdepth - 1)));
            break;
        }
        case 100:
        {
            // combinations: a depth limit together with clocks / movetime / nodes / movestogo / searchmoves
            g.depth = 1 + int(rng.below(std::max(1, maxdepth - 1)));
            int extra = int(rng.below(5));
            if (extra == 0 || extra == 4)
            {
                static const int CL[] = {1, 50, 300, 2000, 30000, 600000};
                g.wtime = CL[rng.below(6)];
                g.btime = CL[rng.below(6)];
                if (rng.below(2)) g.winc = g.binc = int(rng.below(3)) * 1000;
                if (rng.below(2)) g.movestogo = 1 + int(rng.below(40));
            }
            if (extra == 1 || extra == 4)
            {
                static const int MT[] = {1, 20, 200, 60000};
                g.movetime = MT[rng.below(4)];
            }
            if (extra == 2)
            {
                static const long NN[] = {1, 100, 5000, 100000};
                g.nodes = NN[rng.below(4)];
                g.movetime = rng.below(2) ? 50 : 0;
            }
            if (extra == 3) g.searchmoves = subset(legal, 1 + int(rng.below(4)));
            rec.count("go-with-combined-limits");
            break;
        }
        default:
        {
            // stop delivered at an exact node visit (early-stop enumeration)
            g.infinite = rng.below(2);
            if (!g.infinite) g.depth = 30;
            g.stop_at = rng.below(3) == 0 ? long(1 + rng.below(256)) : rng.below(2) ? long(1 + rng.below(4096)) : long(1 + rng.below(100000));
            break;
        }
        }
        if (threat) g.depth = 2 + int(rng.below(3));
        // clock-only searches that would need real minutes are skipped by construction (<= 2 s clocks)
        set_cur(B, g, table);
        RunResult r = run_go(*rig, P, B, g, CAP);
        judge_all(B, g, r, table);

        if (PROP == "C09" && i % 4 == 0 && legal.size() >= 2 && !r.out.bestmoves.empty())
        {
            // searchmoves that EXCLUDE the move an earlier, deeper search stored for the root
            orc::Move best;
            if (orc::parse_uci_move(r.out.bestmoves[0], best))
            {
                GoSpec d;
                d.depth = std::min(maxdepth + 1, 6);
                set_cur(B, d, "warm");
                RunResult r0 = run_go(*rig, P, B, d, CAP);
                judge_all(B, d, r0, "warm");
                orc::Move deep_best = best;
                if (!r0.out.bestmoves.empty()) orc::parse_uci_move(r0.out.bestmoves[0], deep_best);
                std::vector<orc::Move> others;
                for (const orc::Move& m : legal)
                    if (m != deep_best) others.push_back(m);
                GoSpec s;
                s.depth = 1 + int(rng.below(d.depth));
                s.searchmoves = subset(others, 1 + int(rng.below(3)));
                bool bump = rng.below(2);
                if (bump) rig->table.updateEpoch(1);
                std::string tbl = bump ? "root-entry-outside-S:epoch-bumped" : "root-entry-outside-S:same-epoch";
                set_cur(B, s, tbl);
                RunResult r1 = run_go(*rig, P, B, s, CAP);
                judge_all(B, s, r1, tbl);
            }
        }
        if (PROP == "C08" && i % 3 == 1 && legal.size() >= 2)
        {
            // an earlier ABORTED search of the same position in the same session (node budget of 1, or a stop at some node
            // visit), no `position` in between: whatever it left in the table must not turn into a false mate claim
            GoSpec a;
            if (rng.below(2))
            {
                a.nodes = 1;
                if (rng.below(2)) a.depth = 6;
            }
            else
            {
                a.infinite = true;
                a.stop_at = long(50 + rng.below(rng.below(2) ? 5000 : 60000));
            }
            set_cur(B, a, table);
            RunResult ra = run_go(*rig, P, B, a, CAP);
            (void)ra;
            GoSpec b2;
            b2.depth = 1 + int(rng.below(3));
            set_cur(B, b2, "after-aborted-search-of-same-root");
            RunResult rb = run_go(*rig, P, B, b2, CAP);
            judge_all(B, b2, rb, "after-aborted-search-of-same-root");
        }
        if (PROP == "C08" && i % 12 == 9)
        {
            Board G;
            if (greedy_capture_root(G))
            {
                Position PG(G.fen());
                rig->table.clear();
                GoSpec probe;
                probe.depth = 2;
                g_iter_end_visits[1] = g_iter_end_visits[2] = 0;
                set_cur(G, probe, "fresh");
                RunResult rp = run_go(*rig, PG, G, probe, CAP);
                judge_all(G, probe, rp, "fresh");
                long v1 = g_iter_end_visits[1], v2 = g_iter_end_visits[2];
                // abort inside iteration 2 (same table contents as the probe had: cleared first), then search again
                for (int j = 0; j < 6 && v2 > v1 + 1; ++j)
                {
                    rig->table.clear();
                    GoSpec a;
                    a.infinite = true;
                    a.stop_at = v1 + 1 + long(rng.below(uint32_t(v2 - v1 - 1)));
                    set_cur(G, a, "fresh");
                    run_go(*rig, PG, G, a, CAP);
                    GoSpec b2;
                    b2.depth = 1 + int(rng.below(2));
                    set_cur(G, b2, "after-aborted-search-of-same-root");
                    RunResult rb = run_go(*rig, PG, G, b2, CAP);
                    judge_all(G, b2, rb, "after-aborted-search-of-same-root");
                    rec.count("aborted-inside-iteration-2-then-searched-again");
                }
                rec.count("roots:tempting-capture-into-mate");
            }
        }
        if (PROP == "C08" && i % 12 == 5)
        {
            // en-passant twins: the same placement reached by a single push (no ep right: it is mate) and by a double push
            // (the ep capture is the only defence). Searching the first must not poison the second.
            Board E;
            if (gen::only_ep_evasion(rng, E, 3000))
            {
                int pusher = 1 - E.stm;
                int f = orc::file_of(E.ep);
                int target = orc::sq_of(f, pusher == orc::WHITE ? 3 : 4), mid = E.ep, origin = orc::sq_of(f, pusher == orc::WHITE ? 1 : 6);
                Board R1 = E, R2 = E;
                R1.sq[target] = orc::EMPTY;
                R1.sq[mid] = orc::make_pc(pusher, orc::PAWN);
                R2.sq[target] = orc::EMPTY;
                R2.sq[origin] = orc::make_pc(pusher, orc::PAWN);
                R1.stm = R2.stm = pusher;
                R1.ep = R2.ep = -1;
                if (R1.retro_legal() && R2.retro_legal() && R1.has_legal() && R2.has_legal())
                {
                    GoSpec d1;
                    d1.depth = 2 + int(rng.below(2));
                    Position P1(R1.fen());
                    set_cur(R1, d1, "warm");
                    RunResult r1 = run_go(*rig, P1, R1, d1, CAP);
                    judge_all(R1, d1, r1, "warm");
                    rig->table.updateEpoch(1);
                    GoSpec d2;
                    d2.depth = 2 + int(rng.below(3));
                    Position P2(R2.fen());
                    set_cur(R2, d2, "after-search-of-ep-twin");
                    RunResult r2 = run_go(*rig, P2, R2, d2, CAP);
                    judge_all(R2, d2, r2, "after-search-of-ep-twin");
                    rec.count("ep-twin-scenarios");
                }
            }
        }
        if (PROP == "C08" && i % 2 == 0)
        {
            // an earlier restricted search of the SAME position in the same session (no `position` in between,
            // so no epoch bump): `go searchmoves <non-mating moves>` then a plain `go` must still mate
            std::vector<orc::Move> m1 = orc::mating_moves_in_one(B);
            std::vector<orc::Move> others;
            for (const orc::Move& m : legal)
                if (std::find(m1.begin(), m1.end(), m) == m1.end()) others.push_back(m);
            if (!m1.empty() && !others.empty())
            {
                GoSpec a;
                a.depth = 2 + int(rng.below(3));
                a.searchmoves = subset(others, 1 + int(rng.below(3)));
                set_cur(B, a, "warm");
                RunResult ra = run_go(*rig, P, B, a, CAP);
                (void)ra;
                GoSpec b2;
                b2.depth = 1 + int(rng.below(a.depth));
                set_cur(B, b2, "after-restricted-search-of-same-root");
                RunResult rb = run_go(*rig, P, B, b2, CAP);
                judge_all(B, b2, rb, "after-restricted-search-of-same-root");
            }
        }
        if (PROP == "C05" && i % 16 == 3)
        {
            // exhaustive early stops k = 1..64 on this root
            for (long k = 1; k <= 64; ++k)
            {
                GoSpec e;
                e.infinite = true;
                e.stop_at = k;
                set_cur(B, e, "warm");
                RunResult re = run_go(*rig, P, B, e, CAP);
                judge_all(B, e, re, "warm");
            }
        }
    }
    // directed C09 cases: depth limits beyond the internal maximum on cheap positions
    if (PROP == "C09" && args.has("deep"))
    {
        static const char* CHEAP[] = {"8/8/4k3/8/8/4K3/8/8 w - - 0 1", "8/8/8/3k4/8/3K4/8/8 b - - 0 1", "7k/5Q2/6K1/8/8/8/8/8 w - - 0 1", "k7/8/1K6/8/8/8/8/7Q w - - 0 1",
                                      "8/8/2k5/8/8/2K5/8/8 w - - 10 30", "6k1/5ppp/8/8/8/8/8/1RK5 w - - 0 1"};
        static const int DEPTHS[] = {39, 40, 41, 42, 60, 100, 1000};
        for (const char* f : CHEAP)
            for (int d : DEPTHS)
            {
                Board B = Board::fen(f);
                Position P(B.fen());
                GoSpec g;
                g.depth = d;
                rig->table.updateEpoch(1);
                set_cur(B, g, "warm");
                RunResult r = run_go(*rig, P, B, g, 400000000);
                judge_all(B, g, r, "warm");
                rec.count("deep-limit-searches");
            }
    }
    for (int p = 0; p < verif::POINT_NUM; ++p) rec.count("hook-point-" + std::to_string(p), g_point[p]);
    rec.emit();
    return 0;
}
