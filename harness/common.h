// Shared harness plumbing: argument parsing, JSON output, violation recorder,
// "current case" tracking that survives a crash (printed from the ASan error
// callback / signal handler as `VERIF-CASE: ...`).
#ifndef VERIF_HARNESS_COMMON_H
#define VERIF_HARNESS_COMMON_H

#include <csignal>
#include <cstdint>
#include <cstdio>
#include <cstdlib>
#include <cstring>
#include <map>
#include <string>
#include <unistd.h>
#include <unordered_set>
#include <vector>

namespace vh
{
struct Args
{
    std::map<std::string, std::string> kv;
    Args(int argc, char** argv)
    {
        for (int i = 1; i < argc; ++i)
        {
            std::string a = argv[i];
            if (a.rfind("--", 0) == 0)
            {
                std::string k = a.substr(2);
                if (i + 1 < argc && std::string(argv[i + 1]).rfind("--", 0) != 0)
                    kv[k] = argv[++i];
                else
                    kv[k] = "1";
            }
        }
    }
    long num(const std::string& k, long def) const
    {
        auto it = kv.find(k);
        return it == kv.end() ? def : atol(it->second.c_str());
    }
    std::string str(const std::string& k, const std::string& def = "") const
    {
        auto it = kv.find(k);
        return it == kv.end() ? def : it->second;
    }
    bool has(const std::string& k) const { return kv.count(k) > 0; }
};

inline std::string jstr(const std::string& s)
{
    std::string o = "\"";
    for (unsigned char c : s)
    {
        if (c == '"' || c == '\\')
        {
            o += '\\';
            o += char(c);
        }
        else if (c == '\n')
            o += "\\n";
        else if (c < 0x20)
        {
            char b[8];
            snprintf(b, sizeof b, "\\u%04x", c);
            o += b;
        }
        else
            o += char(c);
    }
    return o + "\"";
}

// tiny JSON object builder
struct J
{
    std::string s = "{";
    bool first = true;
    J& raw(const std::string& k, const std::string& v)
    {
        if (!first) s += ",";
        first = false;
        s += jstr(k) + ":" + v;
        return *this;
    }
    J& str(const std::string& k, const std::string& v) { return raw(k, jstr(v)); }
    J& num(const std::string& k, long long v) { return raw(k, std::to_string(v)); }
    J& hex(const std::string& k, unsigned long long v)
    {
        char b[32];
        snprintf(b, sizeof b, "\"%016llx\"", v);
        return raw(k, b);
    }
    std::string done() const { return s + "}"; }
};

// ---- current case (async-signal-safe to print)
static char g_case[1024] = "none";
static const char* g_case_ptr1 = nullptr;  // optional cheap pointers (e.g. FEN c_str) appended when printing
static const char* g_case_ptr2 = nullptr;

inline void set_case(const char* a, const char* b = nullptr)
{
    g_case_ptr1 = a;
    g_case_ptr2 = b;
}
inline void set_case_text(const std::string& s)
{
    strncpy(g_case, s.c_str(), sizeof(g_case) - 1);
    g_case[sizeof(g_case) - 1] = 0;
    g_case_ptr1 = g_case_ptr2 = nullptr;
}

inline void print_case_async()
{
    auto w = [](const char* s) {
        if (s) (void)!write(2, s, strlen(s));
    };
    w("\nVERIF-CASE: ");
    if (g_case_ptr1)
    {
        w(g_case_ptr1);
        w(" | ");
        w(g_case_ptr2);
    }
    else
        w(g_case);
    w("\n");
}

inline void crash_handler(int sig)
{
    print_case_async();
    signal(sig, SIG_DFL);
    raise(sig);
}

inline void install_crash_handlers()
{
    signal(SIGABRT, crash_handler);
#if !defined(__SANITIZE_ADDRESS__) && !defined(__SANITIZE_THREAD__)
    signal(SIGSEGV, crash_handler);
    signal(SIGBUS, crash_handler);
    signal(SIGFPE, crash_handler);
#else
    signal(SIGFPE, crash_handler);
#endif
}

struct Recorder
{
    struct V
    {
        long count = 0;
        std::string example;
    };
    std::map<std::string, V> viol;
    std::map<std::string, long long> counters;
    std::vector<std::string> samples;
    std::unordered_set<uint64_t> distinct;
    long long evaluations = 0;
    size_t max_samples = 6;

    void violation(const std::string& key, const std::string& example_json)
    {
        V& v = viol[key];
        if (v.count++ == 0) v.example = example_json;
    }
    void count(const std::string& k, long long n = 1) { counters[k] += n; }
    void sample(const std::string& json)
    {
        if (samples.size() < max_samples) samples.push_back(json);
    }
    void nontrivial(uint64_t h) { distinct.insert(h); }

    void emit(FILE* f = stdout) const
    {
        std::string s = "{\"evaluations\":" + std::to_string(evaluations) + ",\"distinct\":" + std::to_string(distinct.size());
        s += ",\"counters\":{";
        bool first = true;
        for (auto& kv : counters)
        {
            if (!first) s += ",";
            first = false;
            s += jstr(kv.first) + ":" + std::to_string(kv.second);
        }
        s += "},\"samples\":[";
        first = true;
        for (auto& x : samples)
        {
            if (!first) s += ",";
            first = false;
            s += x;
        }
        s += "],\"violations\":[";
        first = true;
        for (auto& kv : viol)
        {
            if (!first) s += ",";
            first = false;
            s += "{\"key\":" + jstr(kv.first) + ",\"count\":" + std::to_string(kv.second.count) + ",\"example\":" + kv.second.example + "}";
        }
        s += "]}";
        fprintf(f, "%s\n", s.c_str());
        fflush(f);
    }
};

inline uint64_t fnv(const std::string& s, uint64_t h = 1469598103934665603ULL)
{
    for (unsigned char c : s)
    {
        h ^= c;
        h *= 1099511628211ULL;
    }
    return h;
}

}  // namespace vh

#if defined(__SANITIZE_ADDRESS__)
extern "C" void __asan_on_error() { vh::print_case_async(); }
#endif

#endif
