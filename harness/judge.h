// Oracles over the text a search prints (info lines, bestmove). Shared by the
// in-process search monitor and the UCI session judge. Oracle-side only.
#ifndef VERIF_HARNESS_JUDGE_H
#define VERIF_HARNESS_JUDGE_H

#include "chess.h"
#include "common.h"

#include <sstream>

namespace judge
{
struct Info
{
    int depth = -1;
    bool has_mate = false, has_cp = false;
    long long score = 0;  // cp or mate distance as printed
    std::string score_text;
    std::vector<std::string> pv;
    std::string raw;
};

struct GoOutput
{
    std::vector<Info> infos;
    std::vector<std::string> bestmoves;
    std::vector<std::string> other;
};

inline GoOutput parse(const std::string& text)
{
    GoOutput g;
    std::istringstream in(text);
    std::string line;
    while (std::getline(in, line))
    {
        std::istringstream ls(line);
        std::string tok;
        ls >> tok;
        if (tok == "bestmove")
        {
            std::string m;
            ls >> m;
            g.bestmoves.push_back(m);
        }
        else if (tok == "info")
        {
            Info i;
            i.raw = line;
            while (ls >> tok)
            {
                if (tok == "depth") ls >> i.depth;
                else if (tok == "score")
                {
                    std::string kind, val;
                    ls >> kind >> val;
                    i.score_text = kind + " " + val;
                    // "mate --1" can be printed for -infinity: keep the text, parse leniently
                    std::string v = val;
                    bool neg = false;
                    while (!v.empty() && v[0] == '-')
                    {
                        neg = !neg;
                        v.erase(0, 1);
                    }
                    long long n = atoll(v.c_str());
                    i.score = neg ? -n : n;
                    if (kind == "mate") i.has_mate = true;
                    if (kind == "cp") i.has_cp = true;
                }
                else if (tok == "pv")
                {
                    while (ls >> tok) i.pv.push_back(tok);
                }
            }
            if (i.depth >= 0) g.infos.push_back(i);
        }
        else if (!line.empty())
            g.other.push_back(line);
    }
    return g;
}

struct Ctx
{
    std::string table;  // fresh | warm | poisoned
    std::string stop;   // none | before-iter1 | later
    std::string limits; // human readable
};

inline std::string exj(const orc::Board& root, const Ctx& c, const std::string& what, const std::string& got, const GoOutput& out)
{
    std::string tail;
    if (!out.infos.empty()) tail = out.infos.back().raw;
    return vh::J().str("fen", root.fen()).str("go", c.limits).str("table", c.table).str("stop", c.stop).str("what", what).str("engine", got).str("last_info", tail).done();
}

// C05: exactly one legal bestmove; every pv is a legal line
inline void c05(vh::Recorder& rec, const orc::Board& root, const GoOutput& out, const Ctx& c)
{
    std::string tail = ":" + c.table + ":" + c.stop;
    if (out.bestmoves.empty())
        rec.violation("no-bestmove" + tail, exj(root, c, "no bestmove line", "", out));
    else if (out.bestmoves.size() > 1)
        rec.violation("two-bestmoves" + tail, exj(root, c, "more than one bestmove line", out.bestmoves[0] + " " + out.bestmoves[1], out));
    if (!out.bestmoves.empty())
    {
        orc::Move m;
        bool ok = orc::parse_uci_move(out.bestmoves[0], m) && root.is_legal(m);
        if (!ok)
        {
            std::string shape = out.bestmoves[0] == "a1a1" ? "a1a1" : "other";
            rec.violation("bestmove-illegal:" + shape + tail, exj(root, c, "bestmove is not legal", out.bestmoves[0], out));
        }
    }
    for (const Info& i : out.infos)
    {
        orc::Board b = root;
        for (size_t k = 0; k < i.pv.size(); ++k)
        {
            orc::Move m;
            if (!orc::parse_uci_move(i.pv[k], m) || !b.is_legal(m))
            {
                rec.violation("pv-illegal@" + std::string(k == 0 ? "0" : k == 1 ? "1" : "2+") + tail, exj(root, c, "pv move " + std::to_string(k) + " is not legal where it is played", i.raw, out));
                break;
            }
            b = b.after(m);
        }
        rec.count("pv-lines-replayed");
        rec.count("pv-moves-replayed", (long long)i.pv.size());
    }
}

// C09: depth sequence 1,2,..,k with k <= d; bestmove in searchmoves
inline void c09(vh::Recorder& rec, const orc::Board& root, const GoOutput& out, const Ctx& c, int depth_limit, const std::vector<orc::Move>& searchmoves)
{
    int expect = 1;
    for (const Info& i : out.infos)
    {
        if (depth_limit > 0 && i.depth > depth_limit)
        {
            rec.violation("depth-exceeded:" + std::string(depth_limit > 40 ? "limit>40" : "limit<=40"), exj(root, c, "iteration deeper than the limit", i.raw, out));
            break;
        }
        if (i.depth != expect)
        {
            rec.violation(std::string(i.depth > expect ? "depth-gap" : "depth-repeat") + ":" + c.table, exj(root, c, "iterations not consecutive: expected " + std::to_string(expect), i.raw, out));
            break;
        }
        ++expect;
    }
    if (!searchmoves.empty() && !out.bestmoves.empty())
    {
        orc::Move m;
        bool in = orc::parse_uci_move(out.bestmoves[0], m) && std::find(searchmoves.begin(), searchmoves.end(), m) != searchmoves.end();
        if (!in) rec.violation("not-in-searchmoves:" + c.table, exj(root, c, "bestmove outside searchmoves", out.bestmoves[0], out));
    }
    if (out.bestmoves.empty()) rec.violation("no-termination-or-no-bestmove:" + c.table, exj(root, c, "no bestmove", "", out));
}

// C08: mate in one is played; the final announcement is true
struct MateStats
{
    long claims = 0, verified = 0, unverified = 0;
};

inline void c08(vh::Recorder& rec, const orc::Board& root, const GoOutput& out, const Ctx& c, int64_t solver_budget)
{
    std::vector<orc::Move> m1 = orc::mating_moves_in_one(root);
    if (!m1.empty() && !out.bestmoves.empty())
    {
        rec.count("mate-in-one-roots");
        orc::Move m;
        bool ok = orc::parse_uci_move(out.bestmoves[0], m) && std::find(m1.begin(), m1.end(), m) != m1.end();
        if (!ok) rec.violation("mate1-missed:" + c.table, exj(root, c, "mate in one available, bestmove does not mate", out.bestmoves[0], out));
    }
    if (out.infos.empty()) return;
    const Info& fin = out.infos.back();
    if (!fin.has_mate) return;
    rec.count("mate-announcements");
    long long y = fin.score;
    bool positive = fin.score_text.find('-') == std::string::npos;
    if (fin.score_text == "mate 0" || fin.score_text == "mate -0") y = 0;
    std::vector<orc::Move> hint;
    {
        orc::Board b = root;
        for (const std::string& s : fin.pv)
        {
            orc::Move m;
            if (!orc::parse_uci_move(s, m) || !b.is_legal(m)) break;
            hint.push_back(m);
            b = b.after(m);
        }
    }
    int verdict;  // 1 true, 0 false, -1 unknown
    long long ay = y < 0 ? -y : y;
    std::string sign = (y == 0 || !((y > 0) == positive)) ? "0" : y > 0 ? "+" : "-";
    if (sign == "0")
        verdict = 0;
    else if (y > 0)
    {
        int64_t b1 = solver_budget;
        verdict = orc::can_force_mate(root, int((ay + 1) / 2), b1, &hint, 0);
        if (verdict != 1 && ay <= 6)
        {
            int64_t b2 = solver_budget;
            int v2 = orc::can_force_mate(root, int(ay), b2, &hint, 0);
            verdict = v2;
        }
        else if (verdict == 0)
            verdict = -1;  // only the engine's own unit was refuted; the statement allows y moves
    }
    else
    {
        int64_t b1 = solver_budget;
        verdict = orc::gets_mated(root, int((ay + 1) / 2), b1);
        if (verdict != 1 && ay <= 4)
        {
            int64_t b2 = solver_budget;
            verdict = orc::gets_mated(root, int(ay), b2);
        }
        else if (verdict == 0)
            verdict = -1;
    }
    if (verdict == 1) rec.count("mate-announcements-verified");
    else if (verdict < 0) rec.count("mate-announcements-unverified(budget)");
    else
        rec.violation("false-mate:" + sign + ":claimed" + (ay <= 2 ? std::to_string(ay) : ay <= 6 ? std::string("3-6") : std::string("7+")) + ":" + c.table,
                      exj(root, c, "announced mate does not exist", fin.score_text, out));
}

}  // namespace judge

#endif
