// In-process monitor for the Position / move-generation API properties:
//   C01 C02 C03 C04 C07 C15 C16 C17 C18
// One shared stream of legal games and retro-legal synthetic positions
// (oracle-generated); the property named by --prop decides which oracle runs.
#include "common.h"
#include "gen.h"
#include "glue.h"
#include "polyglot_spec.h"

#include "polyglot.h"
#include "score.h"

#include <unordered_map>

using namespace engine;
using orc::Board;

namespace
{
vh::Recorder rec;
std::string PROP;
orc::Rng* RNG;
PositionScorer* SCORER = nullptr;
std::string cur_fen, cur_extra;

void set_cur(const Board& b, const std::string& extra)
{
    cur_fen = b.fen();
    cur_extra = extra;
    vh::set_case(cur_fen.c_str(), cur_extra.c_str());
}

std::string ex(const Board& b, const std::string& what, const std::string& engine_says, const std::string& oracle_says, const std::string& move = "")
{
    return vh::J().str("fen", b.fen()).str("move", move).str("what", what).str("engine", engine_says).str("oracle", oracle_says).done();
}

// ------------------------------------------------------------------ C01
void check_c01(const Position& P, const Board& B, const std::vector<orc::Move>& legal_sorted)
{
    glue::MoveListResult r = glue::engine_moves(P);
    rec.evaluations++;
    if (r.overflow) rec.violation("extra:overflow", ex(B, "more than 2000 moves generated", "", ""));
    // duplicates
    for (size_t i = 1; i < r.moves.size(); ++i)
        if (r.moves[i] == r.moves[i - 1])
            rec.violation("duplicate:" + B.move_class(r.moves[i]) + ":" + glue::move_context(B, r.moves[i]),
                          ex(B, "move generated twice", glue::moves_str(r.moves), glue::moves_str(legal_sorted), r.moves[i].uci()));
    std::vector<orc::Move> eng = r.moves;
    eng.erase(std::unique(eng.begin(), eng.end()), eng.end());
    std::vector<orc::Move> missing, extra;
    std::set_difference(legal_sorted.begin(), legal_sorted.end(), eng.begin(), eng.end(), std::back_inserter(missing));
    std::set_difference(eng.begin(), eng.end(), legal_sorted.begin(), legal_sorted.end(), std::back_inserter(extra));
    for (const orc::Move& m : missing)
        rec.violation("missing:" + B.move_class(m) + ":" + glue::move_context(B, m),
                      ex(B, "legal move not generated", glue::moves_str(eng), glue::moves_str(legal_sorted), m.uci()));
    for (const orc::Move& m : extra)
    {
        bool sane = m.from >= 0 && m.from < 64 && B.sq[m.from] != orc::EMPTY && orc::color_of(B.sq[m.from]) == B.stm;
        std::string cls = sane ? B.move_class(m) : "garbage";
        std::string ctx = sane ? glue::move_context(B, m) : "";
        if (sane && cls.rfind("castle", 0) == 0)
        {
            // why is it illegal: through attack / occupied / in check
            int home = B.stm == orc::WHITE ? 4 : 60;
            int step = orc::file_of(m.to) == 6 ? 1 : -1;
            if (B.in_check(B.stm)) ctx += ":in-check";
            else if (B.attacked(home + step, 1 - B.stm) || B.attacked(home + 2 * step, 1 - B.stm)) ctx += ":through-attack";
            else ctx += ":blocked-or-no-right";
        }
        rec.violation("extra:" + cls + ":" + ctx, ex(B, "illegal move generated", glue::moves_str(eng), glue::moves_str(legal_sorted), m.uci()));
    }
}

// ------------------------------------------------------------------ C02
void cmp_fen_fields(const Board& before, const orc::Move& m, const std::string& eng_fen, const std::string& orc_fen, const std::string& via)
{
    if (eng_fen == orc_fen) return;
    static const char* names[6] = {"placement", "side", "castling", "ep", "halfmove", "fullmove"};
    std::istringstream a(eng_fen), b(orc_fen);
    std::string x, y;
    for (int i = 0; i < 6; ++i)
    {
        x.clear();
        y.clear();
        a >> x;
        b >> y;
        if (x != y)
        {
            rec.violation(std::string(names[i]) + ":" + before.move_class(m) + via, ex(before, "FEN after move differs", eng_fen, orc_fen, m.uci()));
            return;
        }
    }
    rec.violation("fen-format" + via, ex(before, "FEN after move differs", eng_fen, orc_fen, m.uci()));
}

void check_c02(const Position& P, const Board& B, const std::vector<orc::Move>& legal)
{
    for (const orc::Move& m : legal)
    {
        Position Q = P;
        Q.do_move(glue::to_engine(m, B));
        rec.evaluations++;
        rec.count("class:" + B.move_class(m));
        if (B.sq[m.to] == orc::make_pc(1 - B.stm, orc::ROOK) && (m.to == 0 || m.to == 7 || m.to == 56 || m.to == 63)) rec.count("class:rook-captured-at-home");
        cmp_fen_fields(B, m, Q.fen(), B.after(m).fen(), "");
    }
}

// ------------------------------------------------------------------ C03 snapshot
struct Snap
{
    std::string fen;
    uint64_t hash, pawn_hash;
    uint64_t bb[13], board_set[13], list_set[13];
    int counts[13];
    uint32_t castling, ep, half, ply;
    bool repeated, threefold, rule50, draw, enough;
    int64_t eval;
    std::vector<uint32_t> moves;
    int hist_n;
    uint64_t hist_hash;
};

void take(const Position& P, Snap& s, bool with_eval)
{
    s.fen = P.fen();
    s.hash = P.hash();
    s.pawn_hash = P.pawn_hash();
    for (int pc = 1; pc < 13; ++pc)
    {
        s.bb[pc] = P.pieces(Piece(pc));
        s.board_set[pc] = 0;
        s.list_set[pc] = 0;
        s.counts[pc] = P.number_of_pieces(Piece(pc));
        for (int i = 0; i < s.counts[pc] && i < 10; ++i) s.list_set[pc] |= 1ULL << P.piece_position(Piece(pc), i);
    }
    for (int sq = 0; sq < 64; ++sq)
    {
        Piece pc = P.piece_at(Square(sq));
        if (pc != NO_PIECE) s.board_set[pc] |= 1ULL << sq;
    }
    s.castling = P.castling_rights();
    s.ep = P.enpassant_square();
    s.half = P.half_moves();
    s.ply = P.ply_count();
    s.repeated = P.is_repeated();
    s.threefold = P.threefold_repetition();
    s.rule50 = P.rule50();
    s.enough = P.enough_material();
    s.draw = P.is_draw();
    s.eval = with_eval ? SCORER->score(P) : 0;
    glue::MoveListResult r = glue::engine_moves(P);
    s.moves.assign(r.raw.begin(), r.raw.end());
    std::sort(s.moves.begin(), s.moves.end());
    s.hist_n = verif::PeekPosition::history_size(P);
    s.hist_hash = 1469598103934665603ULL;
    for (int i = 0; i < s.hist_n && i < MAX_PLIES; ++i)
    {
        s.hist_hash ^= verif::PeekPosition::history_at(P, i);
        s.hist_hash *= 1099511628211ULL;
    }
}

const char* diff(const Snap& a, const Snap& b)
{
    if (a.fen != b.fen) return "fen";
    if (a.hash != b.hash) return "hash";
    if (a.pawn_hash != b.pawn_hash) return "pawn_hash";
    for (int pc = 1; pc < 13; ++pc)
    {
        if (a.bb[pc] != b.bb[pc]) return "piece-bitboards";
        if (a.board_set[pc] != b.board_set[pc]) return "board-array";
        if (a.list_set[pc] != b.list_set[pc]) return "piece-lists";
        if (a.counts[pc] != b.counts[pc]) return "piece-counts";
    }
    if (a.castling != b.castling) return "castling_rights";
    if (a.ep != b.ep) return "enpassant_square";
    if (a.half != b.half) return "half_moves";
    if (a.ply != b.ply) return "ply_count";
    if (a.repeated != b.repeated) return "is_repeated";
    if (a.threefold != b.threefold) return "threefold_repetition";
    if (a.rule50 != b.rule50) return "rule50";
    if (a.enough != b.enough) return "enough_material";
    if (a.draw != b.draw) return "is_draw";
    if (a.moves != b.moves) return "move-set";
    if (a.hist_n != b.hist_n) return "history-length";
    if (a.hist_hash != b.hist_hash) return "history-contents";
    if (a.eval != b.eval) return "static-eval";
    return nullptr;
}

const char* inconsistent(const Snap& s)
{
    for (int pc = 1; pc < 13; ++pc)
    {
        if (s.bb[pc] != s.board_set[pc]) return "bitboards-vs-board";
        if (s.list_set[pc] != s.board_set[pc]) return "lists-vs-board";
        if (s.counts[pc] != __builtin_popcountll(s.board_set[pc])) return "count-vs-board";
    }
    return nullptr;
}

void report_c03(const Board& B, const char* what, const std::string& op, int nesting, const Snap& a, const Snap& b, const std::string& mv, Position& P)
{
    std::string w = what;
    if (w == "static-eval")
    {
        // confirm on a fresh evaluator: a cache defect must not be blamed on undo
        PositionScorer fresh;
        Position Q(a.fen);
        if (fresh.score(P) == fresh.score(Q))
        {
            rec.count("eval-diff-not-confirmed-on-fresh-scorer");
            return;
        }
    }
    rec.violation(w + ":" + op + ":" + (nesting <= 1 ? "depth1" : "depth2+"),
                  vh::J().str("fen", B.fen()).str("op", mv).str("observable", w).str("before", a.fen + " hash=" + std::to_string(a.hash) + " hist=" + std::to_string(a.hist_n)).str("after", b.fen + " hash=" + std::to_string(b.hash) + " hist=" + std::to_string(b.hist_n)).done());
}

void check_c03_flat(Position& P, const Board& B, const std::vector<orc::Move>& legal)
{
    Snap a, b;
    take(P, a, true);
    if (const char* inc = inconsistent(a)) rec.violation(std::string("inconsistent:") + inc, ex(B, "representations disagree", inc, ""));
    for (const orc::Move& m : legal)
    {
        Move em = glue::to_engine(m, B);
        MoveInfo mi = P.do_move(em);
        P.undo_move(em, mi);
        take(P, b, true);
        rec.evaluations++;
        rec.count("undo:" + B.move_class(m));
        if (const char* d = diff(a, b))
        {
            report_c03(B, d, B.move_class(m), 1, a, b, m.uci(), P);
            P = Position(a.fen);  // resynchronise (history is lost, acceptable after a violation)
            return;
        }
    }
    if (!B.in_check(B.stm))
    {
        MoveInfo mi = P.do_null_move();
        P.undo_null_move(mi);
        take(P, b, true);
        rec.evaluations++;
        rec.count("undo:null");
        if (const char* d = diff(a, b)) report_c03(B, d, "null", 1, a, b, "null", P);
    }
}

// nested random walk; returns false if a violation was found (position state then unreliable)
bool walk(Position& P, const Board& B, int depth, int level, long& pairs)
{
    Snap a, b;
    take(P, a, level <= 2);
    if (const char* inc = inconsistent(a))
    {
        rec.violation(std::string("inconsistent:") + inc, ex(B, "representations disagree inside a walk", inc, ""));
        return false;
    }
    if (depth == 0) return true;
    std::vector<orc::Move> legal = B.legal();
    int branch = level == 0 ? 3 : (RNG->below(3) == 0 ? 2 : 1);
    for (int i = 0; i < branch; ++i)
    {
        bool do_null = !B.in_check(B.stm) && RNG->chance(0.12) && verif::PeekPosition::history_size(P) < MAX_PLIES - 40;
        if (do_null)
        {
            MoveInfo mi = P.do_null_move();
            Board N = B.after_null();
            bool ok = walk(P, N, depth - 1, level + 1, pairs);
            P.undo_null_move(mi);
            if (!ok) return false;
            ++pairs;
            rec.count("walk:null");
            take(P, b, level <= 2);
            if (const char* d = diff(a, b))
            {
                report_c03(B, d, "null", level + 2, a, b, "null", P);
                return false;
            }
            continue;
        }
        if (legal.empty()) return true;
        const orc::Move& m = legal[RNG->below(uint32_t(legal.size()))];
        Move em = glue::to_engine(m, B);
        MoveInfo mi = P.do_move(em);
        bool ok = walk(P, B.after(m), depth - 1, level + 1, pairs);
        P.undo_move(em, mi);
        if (!ok) return false;
        ++pairs;
        rec.count("walk:" + B.move_class(m));
        take(P, b, level <= 2);
        if (const char* d = diff(a, b))
        {
            report_c03(B, d, B.move_class(m), level + 2, a, b, m.uci(), P);
            return false;
        }
    }
    return true;
}

void check_c03_perft(Position& P, const Board& B)
{
    Snap a, b;
    take(P, a, true);
    int d = 1 + RNG->below(3);
    uint64_t n = perft(P, d);
    uint64_t o = orc::perft(B, d);
    take(P, b, true);
    rec.evaluations++;
    rec.count("perft-bracket");
    if (const char* x = diff(a, b)) report_c03(B, x, "perft", 2, a, b, "perft " + std::to_string(d), P);
    if (n != o) rec.count("perft-count-mismatch(C01 territory)");
}

// ------------------------------------------------------------------ C04
std::unordered_map<std::string, uint64_t> pos2key, pawn2key;
std::unordered_map<uint64_t, std::string> key2pos, key2pawn;
size_t MAP_CAP = 600000;

void check_c04(const Position& P, const Board& B, const std::string& last_op)
{
    rec.evaluations++;
    uint64_t h = P.hash(), ph = P.pawn_hash();
    std::string k4 = B.key4();
    Position S(B.fen());
    if (S.hash() != h)
        rec.violation("incremental-vs-scratch:" + last_op, vh::J().str("fen", B.fen()).str("last_op", last_op).hex("incremental", h).hex("from_fen", S.hash()).done());
    if (S.pawn_hash() != ph)
        rec.violation("pawnkey-incremental-vs-scratch:" + last_op, vh::J().str("fen", B.fen()).str("last_op", last_op).hex("incremental", ph).hex("from_fen", S.pawn_hash()).done());
    if (pos2key.size() > MAP_CAP)
    {
        pos2key.clear();
        key2pos.clear();
        pawn2key.clear();
        key2pawn.clear();
        rec.count("map-resets");
    }
    auto it = pos2key.find(k4);
    if (it == pos2key.end())
    {
        pos2key.emplace(k4, h);
        rec.count("distinct-positions");
    }
    else
    {
        rec.count("revisits");
        if (it->second != h) rec.violation("same-pos-two-keys:" + last_op, vh::J().str("pos", k4).hex("first", it->second).hex("now", h).done());
    }
    auto jt = key2pos.find(h);
    if (jt == key2pos.end())
        key2pos.emplace(h, k4);
    else if (jt->second != k4)
        rec.violation("two-pos-same-key:" + last_op, vh::J().str("pos_a", jt->second).str("pos_b", k4).hex("key", h).done());
    std::string pp = B.pawn_placement();
    auto pt = pawn2key.find(pp);
    if (pt == pawn2key.end())
        pawn2key.emplace(pp, ph);
    else if (pt->second != ph)
        rec.violation("pawnkey-not-function-of-pawns:" + last_op, vh::J().str("fen", B.fen()).hex("first", pt->second).hex("now", ph).done());
    auto qt = key2pawn.find(ph);
    if (qt == key2pawn.end())
        key2pawn.emplace(ph, pp);
    else if (qt->second != pp)
        rec.violation("two-pawn-structures-same-key:" + last_op, vh::J().str("fen", B.fen()).str("other", qt->second).hex("key", ph).done());
    rec.nontrivial(vh::fnv(k4));
}

void check_c04_null(Position& P, const Board& B)
{
    if (B.in_check(B.stm)) return;
    MoveInfo mi = P.do_null_move();
    check_c04(P, B.after_null(), "null");
    P.undo_null_move(mi);
    check_c04(P, B, "undo-null");
}

// "Positions that differ in any of those four components get different keys": all positions that share B's piece placement
// but differ in side to move, castling rights (every subset of the rights the placement admits) and en-passant square (every
// square the placement admits) must have pairwise different keys. Random games almost never visit two such siblings, so
// components that cancel each other (rights against ep file against side) would go unnoticed without this enumeration.
void check_c04_siblings(const Board& B)
{
    int admits = 0;
    if (B.sq[4] == orc::WK && B.sq[7] == orc::WR) admits |= orc::CK;
    if (B.sq[4] == orc::WK && B.sq[0] == orc::WR) admits |= orc::CQ;
    if (B.sq[60] == orc::BK && B.sq[63] == orc::BR) admits |= orc::Ck;
    if (B.sq[60] == orc::BK && B.sq[56] == orc::BR) admits |= orc::Cq;
    struct Sib
    {
        uint64_t key;
        int stm, castle, ep;
    };
    std::vector<Sib> sibs;
    for (int stm = 0; stm < 2; ++stm)
        for (int c = 0; c < 16; ++c)
        {
            if (c & ~admits) continue;
            for (int e = -1; e < 8; ++e)
            {
                Board V = B;
                V.stm = stm;
                V.castle = c;
                V.ep = e < 0 ? -1 : orc::sq_of(e, stm == orc::WHITE ? 5 : 2);
                if (!V.retro_legal()) continue;
                Position S(V.fen());
                sibs.push_back(Sib{S.hash(), stm, c, V.ep});
            }
        }
    rec.count("sibling-sets");
    rec.count("sibling-positions", (long long)sibs.size());
    std::sort(sibs.begin(), sibs.end(), [](const Sib& a, const Sib& b) { return a.key < b.key; });
    for (size_t i = 1; i < sibs.size(); ++i)
        if (sibs[i].key == sibs[i - 1].key)
        {
            const Sib &a = sibs[i - 1], &b = sibs[i];
            std::string diff = std::string(a.stm != b.stm ? "side+" : "") + (a.castle != b.castle ? "castling+" : "") + (a.ep != b.ep ? "ep+" : "");
            Board VA = B, VB = B;
            VA.stm = a.stm, VA.castle = a.castle, VA.ep = a.ep;
            VB.stm = b.stm, VB.castle = b.castle, VB.ep = b.ep;
            rec.violation("two-pos-same-key:siblings-differ-in:" + diff, vh::J().str("pos_a", VA.fen()).str("pos_b", VB.fen()).hex("key", a.key).done());
        }
}

// ------------------------------------------------------------------ C07
struct GameHist
{
    std::unordered_map<std::string, int> seen;
};

void check_c07(const Position& P, const Board& B, const std::vector<orc::Move>& legal, GameHist& gh)
{
    rec.evaluations++;
    std::string k4 = B.key4();
    int occ = ++gh.seen[k4];  // including the current one
    bool chk = B.in_check(B.stm);
    bool mate = legal.empty() && chk, stale = legal.empty() && !chk;
    bool rep = occ >= 2, three = occ >= 3, r50 = B.halfmove >= 100, insuf = B.insufficient_material();
    bool draw = r50 || three || insuf;
    auto cmp = [&](const char* name, bool eng, bool orc_v, const std::string& reason) {
        if (orc_v) rec.count(std::string("true:") + name);
        if (eng != orc_v)
            rec.violation(std::string(name) + ":expected" + (orc_v ? "1" : "0") + ":" + reason,
                          vh::J().str("fen", B.fen()).str("predicate", name).num("engine", eng).num("oracle", orc_v).num("occurrences", occ).num("clock", B.halfmove).done());
    };
    cmp("is_in_check", P.is_in_check(P.color()), chk, "chk" + std::to_string(std::min(B.checkers(B.stm), 2)));
    cmp("is_checkmate", P.is_checkmate(), mate, chk ? "in-check" : "no-check");
    cmp("is_stalemate", P.is_stalemate(), stale, chk ? "in-check" : "no-check");
    cmp("is_repeated", P.is_repeated(), rep, "occ" + std::to_string(std::min(occ, 4)) + (B.ep >= 0 ? ":ep" : ""));
    cmp("threefold_repetition", P.threefold_repetition(), three, "occ" + std::to_string(std::min(occ, 4)) + (B.ep >= 0 ? ":ep" : ""));
    cmp("rule50", P.rule50(), r50, B.halfmove >= 100 ? "clock>=100" : "clock<100");
    // material signature
    std::string sig;
    for (int pc = 1; pc < 13; ++pc)
        if (orc::kind_of(pc) != orc::KING)
            for (int i = B.count(pc); i > 0 && sig.size() < 8; --i) sig += ".PNBRQKpnbrqk"[pc];
    cmp("enough_material", P.enough_material(), !insuf, sig.size() >= 8 ? "many" : "mat-" + sig);
    cmp("is_draw", P.is_draw(), draw, std::string(r50 ? "r50" : "") + (three ? "3f" : "") + (insuf ? "mat" : "") + (draw ? "" : "none"));
    rec.nontrivial(vh::fnv(k4 + "#" + std::to_string(occ) + "#" + std::to_string(B.halfmove >= 100)));
}

// ------------------------------------------------------------------ C15
void check_c15(const Position& P, const Board& B, const std::vector<orc::Move>& legal)
{
    for (const orc::Move& m : legal)
    {
        Move em = glue::to_engine(m, B);
        rec.evaluations++;
        bool cap = B.is_capture(m);
        bool quiet = !cap && !m.promo;
        Board N = B.after(m);
        bool chk = N.in_check(N.stm);
        std::string cls = B.move_class(m);
        std::string kind = "none";
        if (chk)
        {
            // direct (by the piece that moved) or discovered
            Board T = N;
            int moved_to = m.to;
            if (B.is_castle(m)) moved_to = orc::sq_of(orc::file_of(m.to) == 6 ? 5 : 3, orc::rank_of(m.to));
            T.sq[moved_to] = orc::EMPTY;
            bool still = T.in_check(T.stm);
            if (B.is_castle(m)) kind = still ? "castle-discovered" : "castle-rook";
            else if (B.is_ep(m)) kind = still ? "ep-discovered" : "direct";
            else if (m.promo) kind = still ? "discovered" : "promo-piece";
            else kind = still ? "discovered" : "direct";
            rec.count("check:" + kind);
        }
        rec.count("class:" + cls);
        auto cmp = [&](const char* name, bool eng, bool o) {
            if (eng != o)
                rec.violation(std::string(name) + ":expected" + (o ? "1" : "0") + ":" + cls + ":" + kind,
                              vh::J().str("fen", B.fen()).str("move", m.uci()).str("predicate", name).num("engine", eng).num("oracle", o).done());
        };
        cmp("move_is_capture", P.move_is_capture(em), cap);
        cmp("move_is_quiet", P.move_is_quiet(em), quiet);
        cmp("move_gives_check", P.move_gives_check(em), chk);
        if (chk || cap || m.promo || B.is_castle(m)) rec.nontrivial(vh::fnv(B.key4() + m.uci()));
    }
}

// ------------------------------------------------------------------ C16
void check_c16(Position& P, const Board& B, const std::vector<orc::Move>& legal)
{
    for (const orc::Move& m : legal)
    {
        Move em = glue::to_engine(m, B);
        rec.evaluations++;
        std::string cls = B.move_class(m);
        rec.count("class:" + cls);
        std::string txt = P.uci(em);
        if (txt != m.uci()) rec.violation("uci-text:" + cls, ex(B, "long-algebraic text differs", txt, m.uci(), m.uci()));
        Move back = P.parse_uci(txt);
        if (back != em)
            rec.violation("uci-roundtrip:" + cls, vh::J().str("fen", B.fen()).str("move", m.uci()).str("text", txt).num("encoded", em).num("parsed", back).done());
        if (m.promo || B.is_castle(m)) rec.nontrivial(vh::fnv(B.key4() + m.uci()));
    }
    // FEN round trip
    rec.evaluations++;
    std::string f = P.fen();
    Position Q(f);
    std::string f2 = Q.fen();
    auto bad = [&](const char* field) {
        rec.violation(std::string("fen-roundtrip:") + field, vh::J().str("fen_printed", f).str("fen_reprinted", f2).str("oracle_fen", B.fen()).str("field", field).done());
    };
    if (f2 != f) bad("text");
    if (Q.hash() != P.hash()) bad("hash");
    if (Q.pawn_hash() != P.pawn_hash()) bad("pawn_hash");
    if (Q.color() != P.color()) bad("side");
    if (Q.castling_rights() != P.castling_rights()) bad("castling");
    if (Q.enpassant_square() != P.enpassant_square()) bad("ep");
    if (Q.half_moves() != P.half_moves()) bad("halfmove");
    if (Q.ply_count() != P.ply_count()) bad("fullmove");
    for (int sq = 0; sq < 64; ++sq)
        if (Q.piece_at(Square(sq)) != P.piece_at(Square(sq)))
        {
            bad("placement");
            break;
        }
    for (int pc = 1; pc < 13; ++pc)
        if (Q.pieces(Piece(pc)) != P.pieces(Piece(pc)) || Q.number_of_pieces(Piece(pc)) != P.number_of_pieces(Piece(pc)))
        {
            bad("piece-sets");
            break;
        }
    rec.nontrivial(vh::fnv(B.key4()));
}

void check_c16_encoding()
{
    // exhaustive: the packed encodings decode to the fields they were built from and nothing else
    long n = 0;
    for (int f = 0; f < 64; ++f)
        for (int t = 0; t < 64; ++t)
        {
            Move m = create_move(Square(f), Square(t));
            ++n;
            if (from(m) != Square(f) || to(m) != Square(t) || promotion(m) != NO_PIECE_KIND || castling(m) != NO_CASTLING)
                rec.violation("encoding:create_move", vh::J().num("from", f).num("to", t).num("encoded", m).done());
            for (int k = KNIGHT; k <= QUEEN; ++k)
            {
                Move p = create_promotion(Square(f), Square(t), PieceKind(k));
                ++n;
                if (from(p) != Square(f) || to(p) != Square(t) || promotion(p) != PieceKind(k) || castling(p) != NO_CASTLING)
                    rec.violation("encoding:create_promotion", vh::J().num("from", f).num("to", t).num("kind", k).num("encoded", p).done());
            }
        }
    for (Castling c : {KING_CASTLING, QUEEN_CASTLING})
    {
        Move m = create_castling(c);
        ++n;
        if (castling(m) != c || promotion(m) != NO_PIECE_KIND) rec.violation("encoding:create_castling", vh::J().num("castling", c).num("encoded", m).done());
        // must not collide with any ordinary or promotion move
        if ((m & 0x7FFF) != 0) rec.violation("encoding:castling-collides", vh::J().num("encoded", m).done());
    }
    if (create_castling(KING_CASTLING) == create_castling(QUEEN_CASTLING)) rec.violation("encoding:castling-codes-equal", "{}");
    // MoveInfo over the full cross product of its five fields
    for (int cap = 0; cap <= 5; ++cap)
        for (int cr = 0; cr < 16; ++cr)
            for (int eps = 0; eps <= 64; ++eps)
                for (int epf = 0; epf < 2; ++epf)
                    for (int hm = 0; hm < 256; ++hm)
                    {
                        Square e = eps == 64 ? NO_SQUARE : Square(eps);
                        MoveInfo mi = create_moveinfo(PieceKind(cap), Castling(cr), e, bool(epf), uint8_t(hm));
                        ++n;
                        if (captured_piece(mi) != PieceKind(cap) || last_castling(mi) != Castling(cr) || last_enpassant_square(mi) != e ||
                            enpassant(mi) != bool(epf) || half_move_counter(mi) != uint8_t(hm))
                        {
                            rec.violation("encoding:create_moveinfo", vh::J().num("captured", cap).num("castling", cr).num("ep_square", eps).num("ep_flag", epf).num("clock", hm).num("encoded", mi).done());
                        }
                    }
    rec.evaluations += n;
    rec.count("encoding-cases", n);
}

// ------------------------------------------------------------------ C17
void check_c17(Position& P, const Board& B, const std::vector<orc::Move>& legal)
{
    if (legal.size() > 128) rec.count("positions-with-more-than-128-moves");
    for (const orc::Move& m : legal)
    {
        Move em = glue::to_engine(m, B);
        rec.evaluations++;
        std::string cls = B.move_class(m);
        cur_extra = "san " + m.uci();
        vh::set_case(cur_fen.c_str(), cur_extra.c_str());
        std::string s = P.san(em);
        std::string suffix = s.empty() ? "none" : s.back() == '+' ? "+" : s.back() == '#' ? "#" : "none";
        rec.count("class:" + cls);
        if (suffix != "none") rec.count("suffix:" + suffix + ":" + (cls.rfind("castle", 0) == 0 ? "castle" : m.promo ? "promo" : "other"));
        std::string err;
        std::vector<orc::Move> res = orc::san_resolve(B, s, &err);
        int ncand = 0;
        for (const orc::Move& x : legal)
            if (x.to == m.to && orc::kind_of(B.sq[x.from]) == orc::kind_of(B.sq[m.from]) && x.promo == m.promo && !B.is_castle(x)) ++ncand;
        if (ncand >= 3) rec.count("disambiguation:3+candidates");
        else if (ncand == 2) rec.count("disambiguation:2candidates");
        std::string tail = cls + ":" + suffix + ":cand" + std::to_string(std::min(ncand, 4));
        if (res.size() != 1 || res[0] != m)
        {
            std::string kind = res.empty() ? "unresolvable" : res.size() > 1 ? "ambiguous" : "other-move";
            rec.violation(kind + ":" + tail, vh::J().str("fen", B.fen()).str("move", m.uci()).str("san", s).str("oracle_resolves_to", glue::moves_str(res)).str("oracle_err", err).done());
        }
        Move back = P.parse_san(s);
        if (back != em)
            rec.violation(std::string(back == NO_MOVE ? "rejected" : "parsed-other-move") + ":" + tail,
                          vh::J().str("fen", B.fen()).str("move", m.uci()).str("san", s).num("encoded", em).num("parsed", back).done());
        // observation only: is the +/# suffix what the rules say?
        Board N = B.after(m);
        bool chk = N.in_check(N.stm), mate = chk && !N.has_legal();
        std::string want = mate ? "#" : chk ? "+" : "none";
        if (want != suffix) rec.count("observation:suffix-differs-from-rules");
        if (ncand >= 2 || suffix != "none" || m.promo || B.is_castle(m) || B.is_capture(m)) rec.nontrivial(vh::fnv(B.key4() + m.uci()));
    }
}

// ------------------------------------------------------------------ C18
long g_c18_visits = 0;
std::string c18_component(uint64_t d)
{
    std::string comp = "piece-or-mixed";
    if (d == orc::RANDOM64[780]) comp = "turn";
    for (int f = 0; f < 8; ++f)
        if (d == orc::RANDOM64[772 + f]) comp = "ep";
    for (int mask = 1; mask < 16; ++mask)
    {
        uint64_t x = 0;
        for (int i = 0; i < 4; ++i)
            if (mask & (1 << i)) x ^= orc::RANDOM64[768 + i];
        if (d == x) comp = "castle";
    }
    return comp;
}

void check_c18(Position& P, const Board& B, const std::vector<orc::Move>& legal)
{
    rec.evaluations++;
    uint64_t e = PolyglotBook::hash(P), o = orc::polyglot_key(B);
    // ep geometry cell
    std::string geo = "no-ep";
    if (B.ep >= 0)
    {
        int f = orc::file_of(B.ep), r = B.stm == orc::WHITE ? 4 : 3;
        int mine = orc::make_pc(B.stm, orc::PAWN);
        bool l = f > 0 && B.sq[orc::sq_of(f - 1, r)] == mine, rr = f < 7 && B.sq[orc::sq_of(f + 1, r)] == mine;
        geo = std::string("ep:") + (l && rr ? "both" : l ? "left" : rr ? "right" : "none") + (f == 0 ? ":a-file" : f == 7 ? ":h-file" : "");
        bool legal_ep = false;
        for (const orc::Move& m : B.legal())
            if (B.is_ep(m)) legal_ep = true;
        if ((l || rr) && !legal_ep) geo += ":capture-illegal(pinned)";
    }
    rec.count("geo:" + geo);
    rec.count("castle-set:" + std::to_string(B.castle));
    if (e != o)
    {
        uint64_t d = e ^ o;
        std::string comp = "piece-or-mixed";
        if (d == orc::RANDOM64[780]) comp = "turn";
        for (int f = 0; f < 8; ++f)
            if (d == orc::RANDOM64[772 + f]) comp = "ep";
        for (int mask = 1; mask < 16; ++mask)
        {
            uint64_t x = 0;
            for (int i = 0; i < 4; ++i)
                if (mask & (1 << i)) x ^= orc::RANDOM64[768 + i];
            if (d == x) comp = "castle";
        }
        rec.violation(comp + ":" + geo, vh::J().str("fen", B.fen()).hex("engine", e).hex("spec", o).hex("xor", d).done());
    }
    // the key of the SAME position object after a move was made and taken back (what perft and the search leave behind):
    // where an en-passant square exists, every move is tried
    if (e == o && (B.ep >= 0 || (g_c18_visits++ & 7) == 0))
    {
        for (const orc::Move& m : legal)
        {
            Move em = glue::to_engine(m, B);
            MoveInfo mi = P.do_move(em);
            P.undo_move(em, mi);
            uint64_t e2 = PolyglotBook::hash(P);
            rec.count("keys-after-make-unmake");
            if (e2 != o)
            {
                rec.violation("after-make-unmake:" + c18_component(e2 ^ o) + ":" + geo + ":" + B.move_class(m),
                              vh::J().str("fen", B.fen()).str("move_made_and_taken_back", m.uci()).hex("engine", e2).hex("spec", o).hex("xor", e2 ^ o).done());
                break;
            }
        }
    }
    if (B.ep >= 0 || B.castle) rec.nontrivial(vh::fnv(B.key4()));
}

// ------------------------------------------------------------------ driver
long g_positions = 0;

void visit(Position& P, const Board& B, GameHist& gh, const std::string& last_op, const std::string& tag)
{
    ++g_positions;
    std::vector<orc::Move> legal = B.legal();
    std::sort(legal.begin(), legal.end());
    set_cur(B, tag);
    if (PROP == "C01" || PROP == "C02" || PROP == "C15" || PROP == "C16" || PROP == "C17" || PROP == "C18" || PROP == "C03")
    {
        gen::Features f = gen::features(B, legal);
        rec.count("cell:" + f.cell());
        if (PROP == "C01" && (f.checkers || f.has_ep || f.pinned || f.castle_right)) rec.nontrivial(vh::fnv(B.key4()));
        if (legal.size() >= 100) rec.count("positions-with-100+-moves");
    }
    if (PROP == "C01")
    {
        check_c01(P, B, legal);
        // what `perft` uses: nested make/unmake on one shared position. Totals against the oracle, then the root list again
        // (a move list derived from state that an unbalanced undo corrupted shows up here, not in a fresh position)
        bool promo_tpl = tag.find("promo") != std::string::npos;
        if (legal.size() <= 40 && ((g_positions % 64) == 0 || (promo_tpl && (g_positions % 4) == 0)))
        {
            int d = legal.size() <= 12 ? 4 : 3;
            uint64_t e = perft(P, d), o = orc::perft(B, d);
            rec.evaluations++;
            rec.count("perft-differentials");
            if (e != o)
                rec.violation("perft-total-mismatch:depth" + std::to_string(d) + (promo_tpl ? ":promo-template" : ""),
                              vh::J().str("fen", B.fen()).num("depth", d).num("engine", (long long)e).num("oracle", (long long)o).done());
            check_c01(P, B, legal);
        }
    }
    else if (PROP == "C02") check_c02(P, B, legal);
    else if (PROP == "C03")
    {
        check_c03_flat(P, B, legal);
        rec.nontrivial(vh::fnv(B.key4()));
    }
    else if (PROP == "C04")
    {
        check_c04(P, B, last_op);
        if ((g_positions & 3) == 0) check_c04_null(P, B);
        if ((g_positions & 15) == 5) check_c04_siblings(B);
    }
    else if (PROP == "C07") check_c07(P, B, legal, gh);
    else if (PROP == "C15") check_c15(P, B, legal);
    else if (PROP == "C16") check_c16(P, B, legal);
    else if (PROP == "C17") check_c17(P, B, legal);
    else if (PROP == "C18") check_c18(P, B, legal);
    if (rec.samples.size() < rec.max_samples && (g_positions % 997) == 1) rec.sample(vh::J().str("fen", B.fen()).str("source", tag).num("legal_moves", (long long)legal.size()).done());
}

void play(const gen::Game& g)
{
    Board B = Board::fen(g.start_fen);
    Position P(g.start_fen);
    GameHist gh;
    visit(P, B, gh, "start", g.tag);
    for (size_t i = 0; i < g.moves.size(); ++i)
    {
        const orc::Move& m = g.moves[i];
        std::string cls = B.move_class(m);
        Board N = B.after(m);
        P.do_move(glue::to_engine(m, B));
        if (PROP == "C02")
        {
            // history part of C02: the position after the whole prefix, as the engine prints it
            rec.evaluations++;
            std::string ef = P.fen(), of = N.fen();
            if (ef != of)
            {
                cmp_fen_fields(B, m, ef, of, ":in-game");
                return;
            }
        }
        else if (P.fen() != N.fen())
        {
            rec.count("game-abandoned:engine-position-diverged(C02 territory)");
            // the game itself is legal, so what the engine derives from the position it now holds (its move list,
            // its book key) is still C01's / C18's business: judge this one position - what a user sees after
            // `position ... moves ...` - then stop
            if (PROP == "C01" || PROP == "C18")
            {
                GameHist tmp;
                visit(P, N, tmp, cls, g.tag + ":after-divergent-do_move");
            }
            // C07 is about what the engine answers for THIS game history. As long as pieces and side to move agree (only
            // rights / ep square / clocks are off) the game's moves remain executable, and the history predicates are judged
            // to the end of the game: a right that was not revoked shows as a repetition that is not recognised.
            auto two_fields = [](const std::string& f) { size_t a = f.find(' '); size_t b2 = a == std::string::npos ? a : f.find(' ', a + 1); return f.substr(0, b2); };
            if (PROP == "C07" && two_fields(P.fen()) == two_fields(N.fen()))
            {
                rec.count("game-continued-with-divergent-rights/ep/clock");
                B = N;
                visit(P, B, gh, cls, g.tag + ":after-divergent-do_move");
                continue;
            }
            return;
        }
        B = N;
        visit(P, B, gh, cls, g.tag);
    }
    rec.count("games");
    rec.count("plies", (long long)g.moves.size());
}

}  // namespace

int main(int argc, char** argv)
{
    vh::Args args(argc, argv);
    vh::install_crash_handlers();
    PROP = args.str("prop", "C01");
    uint64_t seed = uint64_t(args.num("seed", 1));
    orc::Rng rng(seed * 0x9E3779B97F4A7C15ULL + 77);
    RNG = &rng;
    glue::init_engine();
    PositionScorer scorer;
    SCORER = &scorer;
    long games = args.num("games", 50), plies = args.num("plies", 120), synth = args.num("synth", 1000), walks = args.num("walks", 0);
    MAP_CAP = size_t(args.num("mapcap", 600000));
    if (args.has("encoding")) check_c16_encoding();

    if (args.has("fen"))
    {
        // replay of a single position (+ optional moves)
        gen::Game g;
        g.start_fen = args.str("fen");
        g.tag = "replay";
        std::istringstream ms(args.str("moves"));
        std::string t;
        while (ms >> t)
        {
            orc::Move m;
            if (orc::parse_uci_move(t, m)) g.moves.push_back(m);
        }
        play(g);
        rec.emit();
        return 0;
    }

    gen::Policy pol;
    if (PROP == "C07") pol.rep_bias = 0.5;
    // --- games from the start position and from the corpus
    for (long i = 0; i < games; ++i)
    {
        Board start = (i % 3 == 0) ? Board::startpos() : Board::fen(gen::CORPUS[rng.below(gen::CORPUS_N)]);
        gen::Policy p = pol;
        int len = int(plies);
        std::string tag = "game";
        if (PROP == "C04" && i % 2 == 1)
        {
            p.reversible_only = true;
            p.rep_bias = 0.3;
            tag = "shuffle-game";
            // thin the position out so that transpositions are frequent
            Board s = gen::synth(rng, gen::T_SPARSE);
            start = s;
        }
        if (PROP == "C07")
        {
            if (i % 5 == 1)
            {
                start = gen::synth(rng, gen::T_SPARSE);
                start.halfmove = 0;
                tag = "sparse-game";
            }
            if (i % 5 == 2)
            {
                start.halfmove = 88 + rng.below(12);
                tag = "late-clock-game";
            }
            if (i % 7 == 3) len = 700 + rng.below(90);
            if (i % 5 == 4)
            {
                p.reversible_only = true;
                p.rep_bias = 0.6;
                tag = "shuffle-game";
            }
        }
        play(gen::random_game(rng, start, len, p, tag));
    }
    // --- synthetic retro-legal positions, each followed by a few plies of play
    long rejected = 0;
    for (long i = 0; i < synth; ++i)
    {
        int t = int(i % gen::T_COUNT);
        if (PROP == "C18") t = (i % 2 == 0) ? int(gen::T_EP) : int((i / 2) % gen::T_COUNT);  // half ep-matrix, the other half cycles through ALL templates
        Board b = gen::synth(rng, t, &rejected);
        rec.count(std::string("synth:") + gen::TEMPLATE_NAME[t]);
        gen::Policy p = pol;
        p.mate_bias = 0.2;
        play(gen::random_game(rng, b, PROP == "C07" ? 30 : 3, p, std::string("synth:") + gen::TEMPLATE_NAME[t]));
    }
    rec.count("synth-rejected-by-retro-legal-filter", rejected);
    // directed: en passant as the only way out of a check (C01 move list, C07 mate/stalemate answers, C15/C17 on the ep move)
    if (PROP == "C01" || PROP == "C07" || PROP == "C15" || PROP == "C17")
        for (long i = 0; i < std::max(4L, synth / 400); ++i)
        {
            Board b;
            if (!gen::only_ep_evasion(rng, b)) continue;
            rec.count("synth:only-ep-evasion");
            gen::Policy p = pol;
            play(gen::random_game(rng, b, 2, p, "synth:only-ep-evasion"));
        }
    // directed: a rook taken on its home corner with the right intact (promoting pawn, slider, knight), then a shuffling game:
    // the right is gone (C02), the key follows (C04), and the positions after it are repeated by returning moves (C07)
    if (PROP == "C02" || PROP == "C04" || PROP == "C07" || PROP == "C03")
        for (long i = 0; i < std::max(8L, synth / 100); ++i)
        {
            Board b;
            orc::Move first;
            if (!gen::corner_rook_capture(rng, b, first)) continue;
            rec.count(first.promo ? "synth:corner-rook-captured-by-promoting-pawn" : "synth:corner-rook-captured-by-piece");
            gen::Policy p = pol;
            p.rep_bias = 0.75;
            p.mate_bias = 0.0;
            gen::Game rest = gen::random_game(rng, b.after(first), 10 + int(rng.below(14)), p, "synth:corner-rook-capture");
            gen::Game g;
            g.start_fen = b.fen();
            g.tag = "synth:corner-rook-capture";
            g.moves.push_back(first);
            g.moves.insert(g.moves.end(), rest.moves.begin(), rest.moves.end());
            play(g);
        }
    // --- nested walks (C03), transposition walks are covered by shuffle games (C04)
    if (PROP == "C03")
    {
        for (long i = 0; i < walks; ++i)
        {
            Board b = (i % 2) ? gen::synth(rng, int(i % gen::T_COUNT)) : Board::fen(gen::CORPUS[rng.below(gen::CORPUS_N)]);
            // reach a random middlegame first so that the history is not empty
            gen::Game g = gen::random_game(rng, b, int(rng.below(30)), pol, "walk-prefix");
            Position P(g.start_fen);
            Board B = Board::fen(g.start_fen);
            for (const orc::Move& m : g.moves)
            {
                P.do_move(glue::to_engine(m, B));
                B = B.after(m);
            }
            if (P.fen() != B.fen()) continue;
            set_cur(B, "walk");
            long pairs = 0;
            walk(P, B, 4 + int(rng.below(9)), 0, pairs);
            rec.evaluations += pairs;
            rec.count("walks");
            rec.count("walk-pairs", pairs);
            if (i % 4 == 0) check_c03_perft(P, B);
        }
    }
    rec.count("positions", g_positions);
    rec.emit();
    return 0;
}
