// Oracle-side tool for UCI sessions (no engine code):
//   session_tool gen   --kind K --seed S --count N    -> one JSON session per line
//   session_tool judge --prop Cxx < transcript-file   -> Recorder JSON
// Sessions are well-formed by construction (DESIGN.md Appendix A.4): legal games
// from the oracle, `go` only with >= 1 legal move, quit only after bestmove.
#include "common.h"
#include "gen.h"
#include "kpk.h"
#include "judge.h"
#include "polyglot_spec.h"

#include <iostream>

using orc::Board;

namespace
{
orc::Rng* RNG;

std::string jarr(const std::vector<std::string>& v)
{
    std::string s = "[";
    for (size_t i = 0; i < v.size(); ++i) s += (i ? "," : "") + v[i];
    return s + "]";
}

struct Session
{
    std::string tag;
    std::vector<std::string> steps;
    void send(const std::string& line) { steps.push_back("[\"send\"," + vh::jstr(line) + "]"); }
    void sync() { steps.push_back("[\"sync\"]"); }
    // go step: command, stop delay in ms (-1 = wait for bestmove on its own), root fen, legal moves, depth limit, searchmoves
    void go(const std::string& cmd, int stop_ms, const Board& root, int depth_limit = 0, const std::vector<orc::Move>& sm = {}, bool isready_during = false)
    {
        if (!root.has_legal()) return;  // `go` on a terminal position is outside the well-formed domain
        std::vector<std::string> lm, smv;
        for (const orc::Move& m : root.legal()) lm.push_back(vh::jstr(m.uci()));
        for (const orc::Move& m : sm) smv.push_back(vh::jstr(m.uci()));
        steps.push_back("[\"go\"," + vh::jstr(cmd) + "," + std::to_string(stop_ms) + "," + vh::jstr(root.fen()) + "," + jarr(lm) + "," + std::to_string(depth_limit) + "," + jarr(smv) + "," + (isready_during ? "1" : "0") + "]");
    }
    // printboard and the FEN the oracle expects
    void board(const Board& b) { steps.push_back("[\"board\"," + vh::jstr(b.fen()) + "]"); }
    void perft(int d, const Board& b) { steps.push_back("[\"perft\"," + std::to_string(d) + "," + std::to_string(orc::perft(b, d)) + "]"); }
    std::string json() const { return vh::J().str("tag", tag).raw("steps", jarr(steps)).done(); }
};

std::string moves_text(const std::vector<orc::Move>& ms, size_t a, size_t b)
{
    std::string s;
    for (size_t i = a; i < b && i < ms.size(); ++i) s += (s.empty() ? "" : " ") + ms[i].uci();
    return s;
}

// a long legal game: mostly reversible shuffling, an irreversible move when the clock nears the 75-move limit
gen::Game long_game(int plies)
{
    gen::Game g;
    Board b = Board::startpos();
    g.start_fen = b.fen();
    orc::Move last[2];
    bool has[2] = {false, false};
    while (int(g.moves.size()) < plies)
    {
        std::vector<orc::Move> legal = b.legal();
        if (legal.empty()) break;
        std::vector<orc::Move> rev, irr;
        for (const orc::Move& m : legal)
        {
            bool i = orc::kind_of(b.sq[m.from]) == orc::PAWN || b.is_capture(m);
            (i ? irr : rev).push_back(m);
        }
        orc::Move m;
        bool want_irr = b.halfmove >= 120 + int(RNG->below(25)) || rev.empty() || RNG->below(60) == 0;
        if (b.halfmove >= 149 && irr.empty()) break;
        if (want_irr && !irr.empty())
        {
            // avoid mating / stalemating / bare-king endings too early: prefer quiet pawn pushes
            std::vector<orc::Move> good;
            for (const orc::Move& x : irr)
            {
                Board n = b.after(x);
                if (n.has_legal() && !n.in_check(n.stm)) good.push_back(x);
            }
            m = !good.empty() ? good[RNG->below(uint32_t(good.size()))] : irr[RNG->below(uint32_t(irr.size()))];
        }
        else
        {
            std::vector<orc::Move> good;
            for (const orc::Move& x : rev)
            {
                Board n = b.after(x);
                if (n.has_legal()) good.push_back(x);
            }
            if (good.empty()) good = rev;
            m = good[RNG->below(uint32_t(good.size()))];
            if (has[b.stm] && RNG->below(3) == 0)
                for (const orc::Move& x : good)
                    if (x.from == last[b.stm].to && x.to == last[b.stm].from) m = x;
        }
        last[b.stm] = m;
        has[b.stm] = true;
        g.moves.push_back(m);
        b = b.after(m);
    }
    return g;
}

Board play(const gen::Game& g, size_t n)
{
    Board b = Board::fen(g.start_fen);
    for (size_t i = 0; i < n && i < g.moves.size(); ++i) b = b.after(g.moves[i]);
    return b;
}

std::string pos_cmd(const gen::Game& g, size_t n)
{
    std::string s = g.start_fen == Board::startpos().fen() ? "position startpos" : "position fen " + g.start_fen;
    if (n) s += " moves " + moves_text(g.moves, 0, n);
    return s;
}

bool g_wild = false;  // synthetic start position (ten queens a side ...): every depth-limited go carries a node budget

std::string random_go(const Board& b, int& depth_limit, std::vector<orc::Move>& sm, int& stop_ms, int maxdepth)
{
    depth_limit = 0;
    sm.clear();
    stop_ms = -1;
    switch (RNG->below(10))
    {
    case 0:
    case 1:
        depth_limit = 1 + RNG->below(maxdepth);
        // plain depth limits stay shallow; deeper ones carry a node budget so that a session on a wild position
        // (ten queens a side) cannot outlast the driver's patience under a sanitizer
        return "go depth " + std::to_string(depth_limit) + ((depth_limit > 2 || g_wild) ? " nodes 300000" : "");
    case 2:
    {
        static const int NN[] = {1, 10, 500, 5000, 30000};
        return "go nodes " + std::to_string(NN[RNG->below(5)]);
    }
    case 3:
    {
        static const int MT[] = {1, 5, 30, -5};
        return "go movetime " + std::to_string(MT[RNG->below(4)]);
    }
    case 4:
    {
        static const int CL[] = {1, -1, 50, 400, 1500};
        int w = CL[RNG->below(5)], bl = CL[RNG->below(5)];
        std::string s = "go wtime " + std::to_string(w) + " btime " + std::to_string(bl);
        if (RNG->below(2)) s += " winc " + std::to_string(RNG->below(3) * 500) + " binc " + std::to_string(RNG->below(3) * 500);
        if (RNG->below(3) == 0) s += " movestogo " + std::to_string(1 + RNG->below(40));
        return s;
    }
    case 5:
    {
        depth_limit = 1 + RNG->below(maxdepth);
        std::vector<orc::Move> legal = b.legal();
        size_t n = 1 + RNG->below(3);
        if (RNG->below(8) == 0) n = legal.size();
        for (size_t i = legal.size(); i > 1; --i) std::swap(legal[i - 1], legal[RNG->below(uint32_t(i))]);
        if (legal.size() > n) legal.resize(n);
        sm = legal;
        // the UCI protocol fixes no order of the go arguments: searchmoves first or last
        std::string lim = "depth " + std::to_string(depth_limit) + ((depth_limit > 2 || g_wild) ? " nodes 300000" : "");
        std::string list = "searchmoves";
        for (const orc::Move& m : sm) list += " " + m.uci();
        return RNG->below(2) ? "go " + lim + " " + list : "go " + list + " " + lim;
    }
    case 6:
        stop_ms = int(RNG->below(4) == 0 ? 0 : RNG->below(120));
        return "go infinite";
    case 7:
        stop_ms = int(RNG->below(60));
        depth_limit = 30;
        return "go depth 30";
    case 8:
    {
        // a depth limit together with a clock or movetime (all limits must hold together)
        depth_limit = 1 + RNG->below(maxdepth);
        std::string s = "go depth " + std::to_string(depth_limit) + ((depth_limit > 2 || g_wild) ? " nodes 300000" : "");
        if (RNG->below(2))
            s += " wtime " + std::to_string(RNG->below(2) ? 30000 : 600) + " btime " + std::to_string(RNG->below(2) ? 30000 : 600) + (RNG->below(2) ? " winc 1000 binc 1000" : "");
        else
            s += " movetime " + std::to_string(RNG->below(2) ? 20000 : 40);
        return s;
    }
    default: depth_limit = 1 + RNG->below(maxdepth); return "go depth " + std::to_string(depth_limit) + " nodes 200000";
    }
}

void preamble(Session& s)
{
    s.send("uci");
    s.sync();
}

Session make(const std::string& kind, long idx)
{
    Session s;
    s.tag = kind;
    if (kind == "kpkcold")
    {
        // a fresh process whose first evaluation of a K+P v K position happens on the reader thread (`staticeval`) while the
        // search thread started by `go infinite` is just getting going: the classification must be the true one
        const orc::KpkTruth& T = orc::KpkTruth::get();
        Board b;
        bool truth = false;
        for (;;)
        {
            int stm = int(RNG->below(2)), wk = int(RNG->below(64)), wp = 8 + int(RNG->below(48)), bk = int(RNG->below(64));
            if (!T.legal(stm, wk, wp, bk)) continue;
            truth = T.white_wins(stm, wk, wp, bk);
            if (!truth && RNG->below(4)) continue;  // mostly won positions: an empty table calls them drawn
            Board c;
            c.sq[wk] = orc::WK;
            c.sq[wp] = orc::WP;
            c.sq[bk] = orc::BK;
            c.stm = stm;
            if (RNG->below(2)) c = c.mirrored();
            if (!c.has_legal()) continue;
            b = c;
            break;
        }
        bool strong_white = b.count(orc::WP) == 1;
        bool strong_to_move = (b.stm == orc::WHITE) == strong_white;
        int v = int(idx % 3);
        s.tag = std::string("kpkcold:") + (v == 0 ? "staticeval-right-after-go" : v == 1 ? "staticeval-before-any-search" : "staticeval-after-uci-isready-go");
        if (v == 2)
        {
            s.send("uci");
            s.sync();
        }
        s.send("position fen " + b.fen());
        if (v != 1) s.send("go infinite");
        s.steps.push_back("[\"eval\"," + vh::jstr(b.fen()) + "," + (truth ? "1" : "0") + "," + (strong_to_move ? "1" : "0") + "]");
        if (v != 1)
        {
            s.send("stop");
            s.steps.push_back("[\"waitbest\"]");
        }
        s.send("quit");
        return s;
    }
    if (kind == "coldstart")
    {
        // no `uci`, no `isready`, no `position`: the engine's own commands (perft, moves, printboard, staticeval) on the
        // built-in start position are the very first thing the process is asked to do
        int v = int(idx % 5);
        Board b = Board::startpos();
        gen::Game g;
        g.start_fen = b.fen();
        if (v == 1 || v == 4)
        {
            gen::Policy pol;
            g = gen::random_game(*RNG, b, 1 + int(RNG->below(v == 4 ? 30 : 6)), pol, "cold");
            s.send("moves " + moves_text(g.moves, 0, g.moves.size()));
            b = play(g, g.moves.size());
        }
        if (v == 2) s.send("staticeval");
        if (v == 3) s.send("printboard");
        s.tag = std::string("coldstart:") + (v == 0 ? "perft-first" : v == 2 ? "staticeval-first" : v == 3 ? "printboard-first" : "moves-first");
        s.perft(1 + int(RNG->below(3)), b);
        s.board(b);
        // the same question again after the standard commands: the answer must not depend on what came first
        s.send("uci");
        s.sync();
        s.send(pos_cmd(g, g.moves.size()));
        s.perft(1 + int(RNG->below(2)), b);
        s.send("quit");
        return s;
    }
    preamble(s);
    if (kind == "longgame")
    {
        static const int LENS[] = {700, 760, 795, 799, 800, 801, 850, 1000, 1500};
        int len = LENS[idx % 9];
        gen::Game g = long_game(len);
        s.tag = "longgame:" + std::to_string(g.moves.size()) + (idx % 2 ? ":moves-cmd" : ":position-cmd");
        if (idx % 2)
        {
            s.send("position startpos");
            for (size_t a = 0; a < g.moves.size(); a += 97) s.send("moves " + moves_text(g.moves, a, a + 97));
        }
        else
            s.send(pos_cmd(g, g.moves.size()));
        Board b = play(g, g.moves.size());
        s.board(b);
        if (b.has_legal())
        {
            int d = 1 + int(idx % 4);
            s.go("go depth " + std::to_string(d), -1, b, d);
            s.perft(1, b);
        }
    }
    else if (kind == "deepdepth")
    {
        static const char* CHEAP[] = {"8/8/4k3/8/8/4K3/8/8 w - - 0 1", "8/8/8/3k4/8/3K4/8/8 b - - 0 1", "7k/5Q2/6K1/8/8/8/8/8 w - - 0 1", "k7/8/1K6/8/8/8/8/7Q w - - 0 1",
                                      "8/8/4k3/8/8/2B1K3/8/8 w - - 0 1", "6k1/5ppp/8/8/8/8/8/1RK5 w - - 0 1", "8/8/2k5/8/8/2K5/8/8 w - - 10 30"};
        static const int DEPTHS[] = {39, 40, 41, 42, 60, 100, 1000, 100000};
        Board b = Board::fen(CHEAP[idx % 7]);
        int d = DEPTHS[(idx / 7) % 8];
        s.tag = "deepdepth:" + std::to_string(d);
        s.send("position fen " + b.fen());
        s.go("go depth " + std::to_string(d), -1, b, d);
    }
    else if (kind == "manymoves")
    {
        static const char* BIG[] = {"R6R/3Q4/1Q4Q1/4Q3/2Q4Q/Q4Q2/pp1Q4/kBNN1KB1 w - - 0 1", "3Q4/1Q4Q1/4Q3/2Q4R/Q4Q2/3Q4/1Q4Rp/1K1BBNNk w - - 0 1",
                                    "k7/8/1r1q1r1q/b1q1n1q1/1Q1N1Q1B/Q1R1Q1R1/8/7K w - - 0 1", "QQQQQQQQ/Q7/8/8/8/8/7q/K6k w - - 0 1"};
        Board b = idx % 5 < 4 ? Board::fen(BIG[idx % 5]) : gen::synth(*RNG, gen::T_MANY);
        if (idx % 5 == 4)
        {
            // the piece lists have ten slots per kind: make sure a position with exactly TEN of a kind (and one that gets its
            // tenth by promotion) is really among the sessions, whatever the seed
            for (int tries = 0; tries < 3000; ++tries)
            {
                Board t = gen::synth(*RNG, gen::T_MANY);
                bool ten = false, nine_plus_pawn = false;
                for (int c = 0; c < 2; ++c)
                    for (int k = orc::KNIGHT; k <= orc::QUEEN; ++k)
                    {
                        int n = t.count(orc::make_pc(c, k));
                        if (n == 10) ten = true;
                        if (n == 9 && t.count(orc::make_pc(c, orc::PAWN)) == 1) nine_plus_pawn = true;
                    }
                if (t.has_legal() && ((idx % 10 == 4) ? ten : (ten || nine_plus_pawn)))
                {
                    b = t;
                    break;
                }
            }
        }
        if (!b.has_legal()) b = Board::fen(BIG[0]);
        s.tag = "manymoves:" + std::to_string(b.legal().size());
        for (int c = 0; c < 2; ++c)
            for (int k = orc::KNIGHT; k <= orc::QUEEN; ++k)
                if (b.count(orc::make_pc(c, k)) == 10) s.tag = "manymoves:ten-of-a-kind:" + std::to_string(b.legal().size());
        s.send("position fen " + b.fen());
        s.board(b);
        s.perft(1 + int(idx % 2), b);
        s.send("staticeval");
        s.sync();
        std::vector<orc::Move> all = b.legal();
        std::string sm = "go depth 1 searchmoves";
        for (const orc::Move& m : all) sm += " " + m.uci();
        s.go(sm, -1, b, 1, all);
        s.go(idx % 2 ? "go depth 2" : "go movetime 30", -1, b, idx % 2 ? 2 : 0);
        // deep enough that late moves (64th and beyond) of wide nodes are searched with reductions
        static const char* WIDE[] = {"1q1q1rk1/q4ppp/2n5/8/3N4/2B5/Q4PPP/1Q1QR1K1 w - - 0 1", "3q1rk1/1q3ppp/q7/8/3Q4/Q7/1Q3PPP/3Q1RK1 w - - 0 1",
                                     "1q1q1rk1/q4ppp/2n5/8/3N4/2B5/Q4PPP/1Q1QR1K1 w - - 3 20", "3q1rk1/1q3ppp/q7/8/3Q4/Q7/1Q3PPP/3Q1RK1 w - - 5 30"};
        Board wb = Board::fen(WIDE[idx % 4]);
        if (wb.retro_legal() && wb.legal().size() >= 64)
        {
            s.send("position fen " + wb.fen());
            int d = 4 + int(idx % 2);
            s.go("go depth " + std::to_string(d) + " nodes 400000", -1, wb, d);
        }
    }
    else if (kind == "multigame")
    {
        int games = 2 + int(RNG->below(4));
        gen::Game prev_g;
        size_t prev_n = 0;
        bool have_prev = false;
        for (int gi = 0; gi < games; ++gi)
        {
            if (gi || RNG->below(2)) s.send("ucinewgame");
            if (RNG->below(4) == 0) s.send("setoption name Polyglot Book value");  // cleared
            if (RNG->below(5) == 0) s.send("setoption name Polyglot Sample value " + std::string(RNG->below(2) ? "best" : "random"));
            if (RNG->below(6) == 0) s.send("setoption name Logfile value");
            s.sync();
            int pick = int(RNG->below(6));
            g_wild = pick == 5;
            Board start = pick < 4 ? Board::startpos() : (pick == 4 ? Board::fen(gen::CORPUS[RNG->below(gen::CORPUS_N)]) : gen::synth(*RNG, int(RNG->below(gen::T_COUNT))));
            if (start.count(orc::WQ) + start.count(orc::BQ) > 3) g_wild = true;
            gen::Policy pol;
            gen::Game g = gen::random_game(*RNG, start, 12 + int(RNG->below(50)), pol, "session");
            size_t step = 1 + RNG->below(6);
            // sometimes the "new" game is the previous one taken up again: the first position command after ucinewgame then
            // textually EXTENDS the last position command of the abandoned game
            size_t first_n = 0;
            if (gi > 0 && have_prev && RNG->below(3) == 0 && prev_n + 1 < prev_g.moves.size())
            {
                g = prev_g;
                first_n = prev_n + 1 + RNG->below(2);
            }
            size_t stop_at = g.moves.size();
            if (gi + 1 < games && RNG->below(2)) stop_at = g.moves.size() / 2;  // abandon it half-way
            for (size_t n = first_n; n <= stop_at; n += step)
            {
                prev_g = g;
                prev_n = n;
                have_prev = true;
                Board b = play(g, n);
                if (!b.has_legal()) break;
                s.send(pos_cmd(g, n));
                if (RNG->below(6) == 0) s.board(b);
                int dl, stop;
                std::vector<orc::Move> sm;
                std::string cmd = random_go(b, dl, sm, stop, 4);
                s.go(cmd, stop, b, dl, sm, RNG->below(4) == 0);
                if (RNG->below(10) == 0) s.perft(1 + int(RNG->below(2)), b);
                if (RNG->below(12) == 0)
                {
                    s.send("staticeval");
                    s.send("hash");
                    s.sync();
                }
            }
        }
    }
    else if (kind == "forcing")
    {
        // long capture chains / check ladders, searched near the depth limits of the search stack
        static const char* F[] = {"k7/8/8/3r1r2/2rRrR2/3R1R2/8/K7 w - - 0 1", "6k1/5ppp/8/8/8/8/r4PPP/3R2K1 w - - 0 1", "r1r1r1k1/1q3ppp/8/8/8/8/1Q3PPP/R1R1R1K1 w - - 0 1",
                                  "3qk3/8/8/8/8/8/8/3QK3 w - - 0 1", "k7/8/2Q5/8/8/8/8/K7 b - - 0 1", "4k3/8/8/pppppppp/PPPPPPPP/8/8/4K3 w - - 0 1"};
        Board b = Board::fen(F[idx % 6]);
        static const int D[] = {6, 8, 10, 12};
        int d = D[(idx / 6) % 4];
        s.tag = "forcing:depth" + std::to_string(d);
        s.send("position fen " + b.fen());
        s.go("go depth " + std::to_string(d) + " nodes 1500000", -1, b, d);
    }
    else if (kind == "stoprace")
    {
        // one go per process (TSan): position, go, optional isready, stop after a random delay
        Board b = RNG->below(2) ? Board::startpos() : Board::fen(gen::CORPUS[RNG->below(gen::CORPUS_N)]);
        if (!b.has_legal()) b = Board::startpos();
        s.send("position fen " + b.fen());
        static const int DELAYS[] = {0, 0, 0, 1, 2, 5, 10, 30, 80, 200};
        int dly = DELAYS[RNG->below(10)];
        int mode = int(RNG->below(6));  // 0..2 infinite, 3 depth 12, 4..5 a search that ends on its own before / around the stop
        bool infinite = mode <= 2;
        int d = mode == 3 ? 12 : 1 + int(RNG->below(3));
        if (mode >= 4) dly = int(RNG->below(2) ? RNG->below(30) : 100 + RNG->below(300));
        s.tag = std::string("stoprace:") + (infinite ? "infinite" : mode == 3 ? "depth12" : "short-search") + ":delay" + std::to_string(dly);
        s.go(infinite ? "go infinite" : "go depth " + std::to_string(d), dly, b, infinite ? 0 : d, {}, infinite && RNG->below(2));
    }
    else if (kind == "replay")
    {
        // games replayed through `position ... moves ...` / `moves`, the board printed at random points,
        // perft 1..2 compared with the oracle (UCI path of C01 / C02 / C16)
        Board start = idx % 3 == 0 ? Board::startpos() : (idx % 3 == 1 ? Board::fen(gen::CORPUS[RNG->below(gen::CORPUS_N)]) : gen::synth(*RNG, int(RNG->below(gen::T_COUNT))));
        gen::Policy pol;
        gen::Game g = gen::random_game(*RNG, start, 20 + int(RNG->below(160)), pol, "replay");
        bool king_home = false;
        if (idx % 6 == 5)
        {
            // first move: the king leaves its home square along the back rank WITHOUT castling (capturing a piece next to
            // it when possible) while castling rights are still there: e1d1/e1f1 must not be taken for anything else
            for (int tries = 0; tries < 300 && !king_home; ++tries)
            {
                Board c = gen::synth(*RNG, gen::T_CASTLE);
                if (!c.castle) continue;
                int ksq = c.stm == orc::WHITE ? 4 : 60;
                std::vector<orc::Move> cand, caps;
                for (const orc::Move& m : c.legal())
                    if (m.from == ksq && orc::rank_of(m.to) == orc::rank_of(ksq) && !c.is_castle(m)) (c.is_capture(m) ? caps : cand).push_back(m);
                if (caps.empty() && (cand.empty() || tries < 200)) continue;
                orc::Move km = !caps.empty() ? caps[RNG->below(uint32_t(caps.size()))] : cand[RNG->below(uint32_t(cand.size()))];
                gen::Game rest = gen::random_game(*RNG, c.after(km), int(RNG->below(30)), pol, "replay");
                g.start_fen = c.fen();
                g.moves.clear();
                g.moves.push_back(km);
                g.moves.insert(g.moves.end(), rest.moves.begin(), rest.moves.end());
                king_home = true;
            }
        }
        s.tag = std::string(king_home ? "replay-king-leaves-home-along-back-rank:" : "replay:") + std::to_string(g.moves.size());
        size_t n = 0;
        while (true)
        {
            Board b = play(g, n);
            if (idx % 2)
                s.send(pos_cmd(g, n));
            else if (n == 0)
                s.send(pos_cmd(g, 0));
            s.board(b);
            if (RNG->below(3) == 0) s.perft(1 + int(RNG->below(2)), b);
            if (n >= g.moves.size()) break;
            size_t step = 1 + RNG->below(9);
            if (!(idx % 2)) s.send("moves " + moves_text(g.moves, n, n + step));
            n = std::min(g.moves.size(), n + step);
        }
        // a GUI may interleave other board-changing commands with position commands that textually extend an earlier one
        if (g.moves.size() >= 6)
        {
            size_t half = g.moves.size() / 2;
            s.send(pos_cmd(g, half));
            if (idx % 4 < 2)
                s.send("ucinewgame");
            else
                s.send("moves " + moves_text(g.moves, half, half + 2));
            s.send(pos_cmd(g, g.moves.size()));
            s.board(play(g, g.moves.size()));
            s.send("ucinewgame");
            s.board(Board::startpos());
            s.send(pos_cmd(g, half + 1));
            s.board(play(g, half + 1));
        }
    }
    else if (kind == "smpromo")
    {
        // searchmoves lists that contain promotions (five-character moves), alone or mixed with ordinary moves,
        // chosen so that the engine would prefer a move OUTSIDE the list (under-promotions only, or quiet moves only)
        Board b;
        std::vector<orc::Move> promos, others;
        for (int tries = 0; tries < 200; ++tries)
        {
            b = gen::synth(*RNG, gen::T_PROMO);
            promos.clear();
            others.clear();
            for (const orc::Move& m : b.legal()) (m.promo ? promos : others).push_back(m);
            if (!promos.empty() && !others.empty()) break;
        }
        s.tag = "smpromo";
        s.send("position fen " + b.fen());
        std::vector<orc::Move> sm;
        int mode = int(idx % 4);
        for (const orc::Move& m : promos)
            if (m.promo != orc::QUEEN && (mode == 0 || RNG->below(2))) sm.push_back(m);
        if (mode == 2 && !others.empty()) sm.insert(sm.begin(), others[RNG->below(uint32_t(others.size()))]);
        if (mode == 3 && !others.empty()) sm.push_back(others[RNG->below(uint32_t(others.size()))]);
        if (sm.empty()) sm.push_back(promos[0]);
        int d = 1 + int(idx % 3);
        bool depth_first = idx % 2;
        std::string list;
        for (const orc::Move& m : sm) list += " " + m.uci();
        int form = int(idx % 3);  // limit first / list only / list first then the limit
        s.go(form == 0 ? "go depth " + std::to_string(d) + " searchmoves" + list : form == 1 ? "go searchmoves" + list : "go searchmoves" + list + " depth " + std::to_string(d), -1, b,
             form == 1 ? 0 : d, sm);
        (void)depth_first;
    }
    else if (kind == "book")
    {
        Board b = Board::startpos();
        gen::Policy pol;
        if (idx % 4 == 1) b = gen::synth(*RNG, gen::T_CASTLE);
        if (idx % 4 == 2) b = gen::synth(*RNG, gen::T_PROMO);
        gen::Game g = gen::random_game(*RNG, b, int(RNG->below(12)), pol, "book");
        Board root = play(g, g.moves.size());
        std::vector<orc::Move> legal = root.legal();
        if (legal.empty())
        {
            root = Board::startpos();
            g.moves.clear();
            g.start_fen = root.fen();
            legal = root.legal();
        }
        std::stable_sort(legal.begin(), legal.end(), [&](const orc::Move& x, const orc::Move& y) {
            auto pri = [&](const orc::Move& m) { return root.is_castle(m) ? 0 : m.promo ? 1 : 2; };
            return pri(x) < pri(y);
        });
        size_t k = std::min<size_t>(legal.size(), 1 + RNG->below(3));
        bool best = RNG->below(2);
        std::vector<int> w(k);
        int maxw = 0;
        for (size_t i = 0; i < k; ++i)
        {
            w[i] = int(RNG->below(4));
            maxw = std::max(maxw, w[i]);
        }
        if (maxw == 0) w[0] = maxw = 2;
        uint64_t key = orc::polyglot_key(root);
        std::string hex;
        auto be = [&](uint64_t v, int bytes) {
            static const char* H = "0123456789abcdef";
            for (int i = bytes - 1; i >= 0; --i)
            {
                unsigned c = unsigned((v >> (8 * i)) & 0xFF);
                hex += H[c >> 4];
                hex += H[c & 15];
            }
        };
        std::vector<orc::Move> allowed;
        for (size_t i = 0; i < k; ++i)
        {
            const orc::Move& m = legal[i];
            int to = m.to;
            if (root.is_castle(m)) to = orc::sq_of(orc::file_of(m.to) == 6 ? 7 : 0, orc::rank_of(m.to));
            int promo = m.promo ? m.promo - 1 : 0;
            uint16_t code = uint16_t(orc::file_of(to) | orc::rank_of(to) << 3 | orc::file_of(m.from) << 6 | orc::rank_of(m.from) << 9 | promo << 12);
            be(key, 8);
            be(code, 2);
            be(uint64_t(w[i]), 2);
            be(0, 4);
            if (best ? w[i] == maxw : w[i] > 0) allowed.push_back(m);
        }
        s.tag = std::string("book:") + (best ? "best" : "random");
        s.steps.push_back("[\"bookfile\"," + vh::jstr(hex) + "]");
        // both orders of the two options (the policy must survive a book load, and a book must survive a policy change)
        if (idx / 2 % 2 == 0)
        {
            s.send("setoption name Polyglot Sample value " + std::string(best ? "best" : "random"));
            s.send("setoption name Polyglot Book value @BOOK@");
        }
        else
        {
            s.send("setoption name Polyglot Book value @BOOK@");
            s.send("setoption name Polyglot Sample value " + std::string(best ? "best" : "random"));
        }
        s.sync();
        if (!g.moves.empty() && idx % 2)
        {
            // the root reached through the engine's `moves` command (appends to the current position)
            size_t cut = RNG->below(uint32_t(g.moves.size()));
            s.send(pos_cmd(g, cut));
            s.send("moves " + moves_text(g.moves, cut, g.moves.size()));
            s.tag += ":root-via-moves-command";
        }
        else
            s.send(pos_cmd(g, g.moves.size()));
        // `legal` of this go step is the set of answers the book allows
        std::vector<std::string> lm;
        for (const orc::Move& m : allowed) lm.push_back(vh::jstr(m.uci()));
        for (int rep = 0; rep < 3; ++rep)
            s.steps.push_back("[\"go\"," + vh::jstr("go depth 2") + ",-1," + vh::jstr(root.fen()) + "," + jarr(lm) + ",2,[],0]");
        if (idx % 3 == 1 && !g.moves.empty())
        {
            // a second game of the same session: after ucinewgame the GUI sets the book position up again with the very same
            // command text; the book move must still be the answer
            s.send("ucinewgame");
            s.send(pos_cmd(g, g.moves.size()));
            s.steps.push_back("[\"go\"," + vh::jstr("go depth 2") + ",-1," + vh::jstr(root.fen()) + "," + jarr(lm) + ",2,[],0]");
            s.tag += ":same-position-command-after-ucinewgame";
        }
        if (idx % 3 == 0)
        {
            // switch to a book WITHOUT complete records (empty / shorter than one record / cleared): the old records must be gone,
            // i.e. the engine has to search (marked for the driver by the pseudo searchmove "__search__")
            int mode = int(idx / 3 % 3);
            s.tag += mode == 0 ? ":then-empty-file" : mode == 1 ? ":then-truncated-file" : ":then-cleared";
            if (mode == 2)
                s.send("setoption name Polyglot Book value");
            else
            {
                s.steps.push_back("[\"bookfile\"," + vh::jstr(mode == 0 ? "" : "00112233445566778899aabbccddee") + "]");
                s.send("setoption name Polyglot Book value @BOOK@");
            }
            s.sync();
            std::vector<std::string> any;
            for (const orc::Move& m : root.legal()) any.push_back(vh::jstr(m.uci()));
            s.steps.push_back("[\"go\"," + vh::jstr("go depth 2") + ",-1," + vh::jstr(root.fen()) + "," + jarr(any) + ",2,[\"__search__\"],0]");
        }
    }
    s.send("quit");
    return s;
}

}  // namespace

int main(int argc, char** argv)
{
    vh::Args args(argc, argv);
    std::string mode = argc > 1 ? argv[1] : "";
    orc::Rng rng(uint64_t(args.num("seed", 1)) * 0x9FB21C651E98DF25ULL + 11);
    RNG = &rng;
    if (mode == "gen")
    {
        std::string kind = args.str("kind", "multigame");
        long n = args.num("count", 1), first = args.num("first", 0);
        for (long i = 0; i < n; ++i) printf("%s\n", make(kind, first + i).json().c_str());
        return 0;
    }
    if (mode == "judge")
    {
        // input records:  GO\nFEN <fen>\nLIMITS <text>\nTABLE <tag>\nDEPTH <d>\nSM <moves>\nOUT\n<lines>\nEND
        vh::Recorder rec;
        std::string prop = args.str("prop", "C05");
        std::string line;
        while (std::getline(std::cin, line))
        {
            if (line != "GO") continue;
            std::string fen, limits, table = "warm", smline, out;
            int depth = 0;
            while (std::getline(std::cin, line))
            {
                if (line.rfind("FEN ", 0) == 0) fen = line.substr(4);
                else if (line.rfind("LIMITS ", 0) == 0) limits = line.substr(7);
                else if (line.rfind("TABLE ", 0) == 0) table = line.substr(6);
                else if (line.rfind("DEPTH ", 0) == 0) depth = atoi(line.c_str() + 6);
                else if (line.rfind("SM", 0) == 0) smline = line.size() > 3 ? line.substr(3) : "";
                else if (line == "OUT") break;
            }
            while (std::getline(std::cin, line) && line != "END") out += line + "\n";
            Board root;
            if (!Board::from_fen(fen, root)) continue;
            std::vector<orc::Move> sm;
            std::istringstream ss(smline);
            std::string t;
            while (ss >> t)
            {
                orc::Move m;
                if (orc::parse_uci_move(t, m)) sm.push_back(m);
            }
            judge::GoOutput o = judge::parse(out);
            judge::Ctx c;
            c.table = table;
            c.stop = limits.find("[stop") != std::string::npos ? "later" : "none";
            c.limits = limits;
            rec.evaluations++;
            rec.count("uci-go-commands-judged");
            if (prop == "C05") judge::c05(rec, root, o, c);
            if (prop == "C09") judge::c09(rec, root, o, c, depth, sm);
            if (prop == "C08") judge::c08(rec, root, o, c, args.num("budget", 200000));
            rec.nontrivial(vh::fnv(fen + limits));
            if (rec.samples.size() < 4) rec.sample(vh::J().str("fen", fen).str("go", limits).str("bestmove", o.bestmoves.empty() ? "" : o.bestmoves[0]).done());
        }
        rec.emit();
        return 0;
    }
    fprintf(stderr, "usage: session_tool gen|judge ...\n");
    return 2;
}
