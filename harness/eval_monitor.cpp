// C13 (colour symmetry) and C14 (purity / cache transparency / bounds) of the static evaluation.
#include "common.h"
#include "gen.h"
#include "glue.h"

#include "score.h"

#include <algorithm>
#include <unordered_map>

using namespace engine;
using orc::Board;

namespace
{
vh::Recorder rec;
std::string PROP;
orc::Rng* RNG;

// ------------------------------------------------------------------ endgame generator
struct EgClass
{
    const char* name;
    const char* strong;  // pieces besides the king
    const char* weak;
};
const EgClass EG[] = {
    {"KPK", "P", ""},      {"KPsK", "PP", ""},     {"KPsK", "PPP", ""},   {"KNBK", "NB", ""},     {"KXK", "Q", ""},      {"KXK", "R", ""},
    {"KXK", "QR", ""},     {"KXK", "BB", ""},      {"KXK", "RBN", ""},    {"KXK", "QQQ", ""},     {"KQKR", "Q", "R"},    {"KRNKR", "RN", "R"},
    {"KRBKR", "RB", "R"},  {"KBPsK", "BP", ""},    {"KBPsK", "BPP", ""},  {"KQKP", "Q", "P"},     {"KRKP", "R", "P"},    {"KNNK", "NN", ""},
    {"KNNKP", "NN", "P"},  {"KBPsKB", "BP", "B"},  {"KBPsKB", "BPP", "B"}, {"KBPsKB", "BPPP", "B"}, {"KRKB", "R", "B"},   {"KRKN", "R", "N"},
    {"KQKRPs", "Q", "RP"}, {"KQKRPs", "Q", "RPP"}, {"KQKRPs", "Q", "RPPP"}, {"KQKRPs", "Q", "RPPPP"}, {"KmmKm", "BB", "N"},  {"KmmKm", "BN", "N"},   {"KmmKm", "NN", "B"},  {"KmmKm", "BB", "B"},
    {"KmmKm", "BN", "B"},  {"general", "QQ", "Q"}, {"general", "RR", "R"}, {"general", "RP", "R"}, {"general", "QP", "Q"}, {"general", "NP", "B"},
    {"general", "RPP", "RP"}, {"general", "BPP", "NP"},
};
const int EG_N = int(sizeof(EG) / sizeof(EG[0]));

int kind_of_char(char c)
{
    switch (c)
    {
    case 'P': return orc::PAWN;
    case 'N': return orc::KNIGHT;
    case 'B': return orc::BISHOP;
    case 'R': return orc::ROOK;
    default: return orc::QUEEN;
    }
}

bool gen_endgame(orc::Rng& rng, const EgClass& c, int strong, Board& out)
{
    Board b;
    b.stm = rng.below(2);
    b.halfmove = rng.below(30);
    b.fullmove = 40 + rng.below(40);
    auto place = [&](int pc, bool biased) {
        for (int tries = 0; tries < 50; ++tries)
        {
            int f = rng.below(8), r = rng.below(8);
            if (orc::kind_of(pc) == orc::PAWN)
            {
                r = 1 + rng.below(6);
                if (biased && rng.chance(0.4)) f = rng.chance(0.5) ? 0 : 7;                 // rook files
                if (biased && rng.chance(0.4)) r = orc::color_of(pc) == orc::WHITE ? 4 + rng.below(3) : 1 + rng.below(3);  // advanced
            }
            if (gen::put(b, orc::sq_of(f, r), pc)) return true;
        }
        return false;
    };
    for (const char* p = c.strong; *p; ++p)
        if (!place(orc::make_pc(strong, kind_of_char(*p)), true)) return false;
    for (const char* p = c.weak; *p; ++p)
        if (!place(orc::make_pc(1 - strong, kind_of_char(*p)), true)) return false;
    // adjacent-file pawns for the KBPsKB blockade cases
    if (rng.chance(0.3))
    {
        std::vector<int> pawns;
        for (int s = 0; s < 64; ++s)
            if (b.sq[s] == orc::make_pc(strong, orc::PAWN)) pawns.push_back(s);
        if (pawns.size() >= 2)
        {
            int a = pawns[0], o = pawns[1];
            int nf = orc::file_of(a) + (orc::file_of(a) < 7 ? 1 : -1);
            int t = orc::sq_of(nf, orc::rank_of(o));
            if (b.sq[t] == orc::EMPTY)
            {
                b.sq[t] = b.sq[o];
                b.sq[o] = orc::EMPTY;
            }
        }
    }
    // kings: weak king near the critical squares half of the time
    int wk_sq = -1;
    if (rng.chance(0.5))
    {
        // near the queening square of some pawn or next to it
        std::vector<int> pawns;
        for (int s = 0; s < 64; ++s)
            if (orc::kind_of(b.sq[s]) == orc::PAWN) pawns.push_back(s);
        if (!pawns.empty())
        {
            int p = pawns[rng.below(uint32_t(pawns.size()))];
            int up = orc::color_of(b.sq[p]) == orc::WHITE ? 1 : -1;
            int anchor_r = rng.chance(0.5) ? (up > 0 ? 7 : 0) : orc::rank_of(p) + up;
            int f = orc::file_of(p) + int(rng.below(3)) - 1, r = anchor_r + (rng.chance(0.3) ? -up : 0);
            if (orc::on_board(f, r)) wk_sq = orc::sq_of(f, r);
        }
    }
    if (wk_sq < 0 || !gen::put(b, wk_sq, orc::make_pc(1 - strong, orc::KING)))
        for (int t = 0; t < 50 && !gen::put(b, rng.below(64), orc::make_pc(1 - strong, orc::KING)); ++t) {}
    for (int t = 0; t < 50 && !gen::put(b, rng.below(64), orc::make_pc(strong, orc::KING)); ++t) {}
    if (b.king_sq(0) < 0 || b.king_sq(1) < 0) return false;
    if (!b.retro_legal()) return false;
    out = b;
    return true;
}

// material signature from the oracle board, stronger side first, e.g. "KBPPvKB"; "many" above 6 men
std::string material_sig(const Board& B)
{
    static const int val[7] = {0, 1, 3, 3, 5, 9, 0};
    std::string side[2];
    int v[2] = {0, 0}, n = 0;
    for (int c = 0; c < 2; ++c)
    {
        side[c] = "K";
        for (int k = orc::QUEEN; k >= orc::PAWN; --k)
            for (int i = B.count(orc::make_pc(c, k)); i > 0; --i)
            {
                side[c] += " PNBRQ"[k];
                v[c] += val[k];
                ++n;
            }
    }
    if (n > 5) return "many";
    bool white_first = v[0] > v[1] || (v[0] == v[1] && side[0] >= side[1]);
    return white_first ? side[0] + "v" + side[1] : side[1] + "v" + side[0];
}

// ------------------------------------------------------------------ C13
void check_c13(PositionScorer& live, const Board& B, const std::string& cls, long n)
{
    if (B.insufficient_material()) return;  // precondition of the statement
    Board M = B.mirrored();
    std::string f1 = B.fen(), f2 = M.fen();
    vh::set_case(f1.c_str(), "c13");
    Position P(f1), Q(f2);
    Value a, b;
    bool fresh = (n % 64) == 0;
    if (fresh)
    {
        PositionScorer s1, s2;
        a = s1.score(P);
        b = s2.score(Q);
        rec.count("pairs-on-fresh-scorers");
    }
    else
    {
        a = live.score(P);
        b = live.score(Q);
    }
    rec.evaluations++;
    rec.count("class:" + cls);
    if (a != b && !fresh)
    {
        // arbitrate on fresh evaluators: a cache artefact belongs to C14, not here
        PositionScorer s1, s2;
        Value a2 = s1.score(P), b2 = s2.score(Q);
        if (a2 == b2)
        {
            // symmetric on fresh evaluators, asymmetric on the long-lived one the search would use: the cache is not
            // transparent (C14 reports the mechanism); the asymmetry itself is still observable, so it is reported here too
            rec.count("mismatch-vanished-on-fresh-scorers");
            rec.violation("cache-dependent-asymmetry:" + material_sig(B), vh::J().str("fen", f1).str("mirror", f2).num("long_lived_score", a).num("long_lived_mirror_score", b).num("fresh_score", a2).num("fresh_mirror_score", b2).done());
            return;
        }
        a = a2;
        b = b2;
    }
    if (a != b)
    {
        bool eg = endgame::score(P) != VALUE_NONE;
        std::string key = (eg ? "endgame:" : "general:") + material_sig(B) + ":" + (std::llabs(a - b) <= 16 ? "small-diff" : "large-diff");
        rec.violation(key, vh::J().str("fen", f1).str("mirror", f2).num("score", a).num("mirror_score", b).str("class", cls).done());
    }
    rec.nontrivial(vh::fnv(B.key4()));
    if (n % 20011 == 7) rec.sample(vh::J().str("fen", f1).str("mirror", f2).num("score", a).num("mirror_score", b).str("class", cls).done());
}

// ------------------------------------------------------------------ C14
const Value BOUND = win_in(MAX_DEPTH);

void check_bound(const std::string& fen, Value v, const std::string& cls)
{
    if (v == VALUE_NONE || v == VALUE_INFINITE || v == -VALUE_INFINITE || v >= BOUND || v <= -BOUND)
        rec.violation("out-of-range:" + cls, vh::J().str("fen", fen).num("score", v).num("bound", BOUND).done());
}

struct Triple
{
    PositionScorer l1, l2;
};

void c14_stream(Triple& t, const std::vector<std::string>& fens, const std::string& shape)
{
    // L1 sees the stream in order, L2 a shuffled and decimated version, F is history-free
    std::vector<Value> v1(fens.size());
    for (size_t i = 0; i < fens.size(); ++i)
    {
        vh::set_case(fens[i].c_str(), "c14-stream-l1");
        Position P(fens[i]);
        v1[i] = t.l1.score(P);
        check_bound(fens[i], v1[i], "stream");
        rec.evaluations++;
        if (RNG->below(400) == 0)
        {
            t.l1.clear();
            rec.count("clears");
        }
        if (i % 32 == 0)
        {
            PositionScorer F;
            Value f = F.score(P);
            rec.count("fresh-reference-evaluations");
            if (f != v1[i]) rec.violation("stream:long-lived-vs-fresh:" + shape, vh::J().str("fen", fens[i]).num("long_lived", v1[i]).num("fresh", f).num("index", (long long)i).done());
        }
    }
    std::vector<size_t> order;
    for (size_t i = 0; i < fens.size(); ++i)
        if (RNG->below(4)) order.push_back(i);
    for (size_t i = order.size(); i > 1; --i) std::swap(order[i - 1], order[RNG->below(uint32_t(i))]);
    for (size_t k : order)
    {
        vh::set_case(fens[k].c_str(), "c14-stream-l2");
        Position P(fens[k]);
        Value v2 = t.l2.score(P);
        rec.evaluations++;
        if (RNG->below(300) == 0)
        {
            t.l2.clear();
            rec.count("clears");
        }
        if (v2 != v1[k])
        {
            PositionScorer F;
            Value f = F.score(P);
            rec.violation("stream:history-dependent:" + shape, vh::J().str("fen", fens[k]).num("evaluator1", v1[k]).num("evaluator2", v2).num("fresh", f).done());
        }
        rec.nontrivial(vh::fnv(fens[k]));
    }
}

// pawn structures for the directed collisions: kings + pawns (+ a queen each so that no specialised endgame applies)
std::string random_pawn_fen(orc::Rng& rng, bool with_pieces)
{
    for (;;)
    {
        Board b;
        b.stm = rng.below(2);
        gen::put(b, rng.below(8), orc::WK);
        gen::put(b, 56 + rng.below(8), orc::BK);
        int n = 2 + rng.below(10);
        for (int i = 0; i < n; ++i) gen::put(b, orc::sq_of(rng.below(8), 1 + rng.below(6)), rng.below(2) ? orc::WP : orc::BP);
        if (with_pieces)
        {
            gen::put(b, rng.below(64), orc::WQ);
            gen::put(b, rng.below(64), orc::BQ);
            gen::put(b, rng.below(64), orc::WR);
            gen::put(b, rng.below(64), orc::BR);
        }
        if (b.king_sq(0) >= 0 && b.king_sq(1) >= 0 && b.retro_legal() && b.count(orc::WP) <= 8 && b.count(orc::BP) <= 8) return b.fen();
    }
}

Value fresh_score(const std::string& fen)
{
    PositionScorer F;
    Position P(fen);
    return F.score(P);
}

void c14_directed(long slot0_budget)
{
    const uint64_t MASK = 512 * 512 - 1;
    // (a) two structures sharing a cache slot
    std::unordered_map<uint64_t, std::string> by_slot;
    std::vector<std::pair<std::string, std::string>> pairs;
    for (int i = 0; i < 6000 && pairs.size() < 8; ++i)
    {
        std::string f = random_pawn_fen(*RNG, true);
        Position P(f);
        if (endgame::score(P) != VALUE_NONE) continue;
        uint64_t slot = P.pawn_hash() & MASK;
        auto it = by_slot.find(slot);
        if (it == by_slot.end())
            by_slot.emplace(slot, f);
        else if (Position(it->second).pawn_hash() != P.pawn_hash())
            pairs.push_back({it->second, f});
    }
    rec.count("directed:slot-collision-pairs-constructed", (long long)pairs.size());
    for (auto& pr : pairs)
    {
        const std::string &A = pr.first, &B = pr.second;
        Value fa = fresh_score(A), fb = fresh_score(B);
        {
            PositionScorer L;
            Position PA(A), PB(B);
            vh::set_case(A.c_str(), "c14 A-B-A");
            Value a1 = L.score(PA), b1 = L.score(PB), a2 = L.score(PA), b2 = L.score(PB);
            rec.evaluations += 4;
            rec.count("directed:A-B-A");
            if (a1 != fa || a2 != fa || b1 != fb || b2 != fb)
                rec.violation("A-B-A", vh::J().str("A", A).str("B", B).num("fresh_A", fa).num("fresh_B", fb).num("A1", a1).num("B1", b1).num("A2", a2).num("B2", b2).done());
        }
        {
            PositionScorer L;
            Position PA(A), PB(B);
            vh::set_case(A.c_str(), "c14 A-clear-B");
            Value a1 = L.score(PA);
            L.clear();
            Value b1 = L.score(PB);
            L.clear();
            Value a2 = L.score(PA);
            rec.evaluations += 3;
            rec.count("directed:A-clear-B");
            if (a1 != fa || b1 != fb || a2 != fa)
                rec.violation("A-clear-B", vh::J().str("A", A).str("B", B).num("fresh_A", fa).num("fresh_B", fb).num("A1", a1).num("B_after_clear", b1).num("A_after_clear", a2).done());
        }
    }
    // (a') pairs of pawn structures whose keys agree in the low (or high) 32 bits. Found by learning the per-square
    //      contributions of the pawn key through pawn_hash() (XOR structure is VERIFIED, not assumed), then a birthday search.
    {
        uint64_t contrib[2][64] = {{0}};
        for (int c = 0; c < 2; ++c)
            for (int sq = 8; sq < 56; ++sq)
            {
                Board b;
                b.sq[6] = orc::WK;
                b.sq[62] = orc::BK;
                b.sq[sq] = c == 0 ? orc::WP : orc::BP;
                contrib[c][sq] = Position(b.fen()).pawn_hash();
            }
        struct St
        {
            uint64_t key, w, b;
        };
        auto build = [&](const St& st, std::string& fen) -> bool {
            Board b;
            b.stm = orc::WHITE;
            b.sq[6] = orc::WK;
            b.sq[62] = orc::BK;
            b.sq[3] = orc::WQ;
            b.sq[59] = orc::BQ;
            b.sq[0] = orc::WR;
            b.sq[56] = orc::BR;
            for (int sq = 8; sq < 56; ++sq)
            {
                if (st.w >> sq & 1) b.sq[sq] = orc::WP;
                if (st.b >> sq & 1) b.sq[sq] = orc::BP;
            }
            if (!b.retro_legal()) return false;
            fen = b.fen();
            return true;
        };
        long M = slot0_budget / 4;
        std::vector<St> v;
        v.reserve(size_t(M));
        for (long i = 0; i < M; ++i)
        {
            St st{0, 0, 0};
            int nw = 1 + int(RNG->below(6)), nb = 1 + int(RNG->below(6));
            for (int k = 0; k < nw; ++k) st.w |= 1ULL << (8 + RNG->below(48));
            for (int k = 0; k < nb; ++k) st.b |= 1ULL << (8 + RNG->below(48));
            st.b &= ~st.w;
            for (int sq = 8; sq < 56; ++sq)
            {
                if (st.w >> sq & 1) st.key ^= contrib[0][sq];
                if (st.b >> sq & 1) st.key ^= contrib[1][sq];
            }
            v.push_back(st);
        }
        std::vector<std::pair<std::string, std::string>> close_pairs;
        for (int pass = 0; pass < 2 && close_pairs.size() < 10; ++pass)
        {
            auto part = [pass](const St& s) { return pass == 0 ? (s.key & 0xFFFFFFFFULL) : (s.key >> 32); };
            std::sort(v.begin(), v.end(), [&](const St& x, const St& y) { return part(x) < part(y); });
            int taken = 0;
            for (size_t i = 1; i < v.size() && taken < 5; ++i)
            {
                if (part(v[i]) != part(v[i - 1]) || v[i].key == v[i - 1].key) continue;
                std::string fa, fb;
                if (!build(v[i - 1], fa) || !build(v[i], fb)) continue;
                Position PA(fa), PB(fb);
                // the learnt XOR model must reproduce the real keys, otherwise this pair proves nothing
                if (PA.pawn_hash() != v[i - 1].key || PB.pawn_hash() != v[i].key)
                {
                    rec.count("directed:xor-model-mismatch");
                    continue;
                }
                if (endgame::score(PA) != VALUE_NONE || endgame::score(PB) != VALUE_NONE) continue;
                close_pairs.push_back({fa, fb});
                rec.count(pass == 0 ? "directed:low32-collision-pairs" : "directed:high32-collision-pairs");
                ++taken;
            }
        }
        for (auto& pr : close_pairs)
        {
            const std::string &A = pr.first, &B = pr.second;
            Value fa = fresh_score(A), fb = fresh_score(B);
            PositionScorer L;
            Position PA(A), PB(B);
            vh::set_case(A.c_str(), "c14 32-bit-collision A-B-A");
            Value a1 = L.score(PA), b1 = L.score(PB), a2 = L.score(PA);
            PositionScorer L2;
            Value b0 = L2.score(PB), a0 = L2.score(PA);
            rec.evaluations += 5;
            rec.count("directed:32bit-collision-A-B-A");
            if (a1 != fa || b1 != fb || a2 != fa || b0 != fb || a0 != fa)
                rec.violation("A-B-A:keys-agree-in-32-bits", vh::J().str("A", A).str("B", B).num("fresh_A", fa).num("fresh_B", fb).num("A1", a1).num("B_after_A", b1).num("A_again", a2).num("A_after_B", a0).done());
        }
    }
    // (b) a structure whose key falls into slot 0, then clear, then pawnless positions
    std::string Z;
    long tried = 0;
    for (; tried < slot0_budget; ++tried)
    {
        std::string f = random_pawn_fen(*RNG, true);
        Position P(f);
        if ((P.pawn_hash() & MASK) == 0 && P.pawn_hash() != 0 && endgame::score(P) == VALUE_NONE)
        {
            Z = f;
            break;
        }
    }
    rec.count("directed:slot0-candidates-tried", tried);
    static const char* PAWNLESS[] = {
        "k1q5/8/8/8/8/8/8/K1Q4Q w - - 0 1", "k1r5/8/8/8/8/8/8/K1R4R w - - 0 1", "3qk3/8/8/8/8/8/8/2QQK3 b - - 0 1",
        "r3k3/8/8/8/8/8/8/R2RK3 w - - 0 1", "2bqk3/8/8/8/8/8/8/2BQKN2 w - - 0 1", "1n1rk3/8/8/8/8/8/8/1N1RKB2 b - - 0 1",
    };
    if (!Z.empty())
    {
        rec.count("directed:slot0-structure-found");
        for (const char* q : PAWNLESS)
        {
            Position PQ(q);
            if (endgame::score(PQ) != VALUE_NONE) continue;
            Value fq = fresh_score(q);
            PositionScorer L;
            Position PZ(Z);
            vh::set_case(Z.c_str(), q);
            Value z1 = L.score(PZ);
            Value q0 = L.score(PQ);  // before any clear
            L.score(PZ);
            L.clear();
            Value q1 = L.score(PQ);
            Value z2 = L.score(PZ);
            rec.evaluations += 5;
            rec.count("directed:slot0-clear-pawnless");
            if (q0 != fq || q1 != fq || z2 != z1)
                rec.violation("slot0-clear-pawnless", vh::J().str("Z", Z).str("pawnless", q).num("fresh", fq).num("before_clear", q0).num("after_clear", q1).num("Z_first", z1).num("Z_again", z2).done());
        }
        rec.sample(vh::J().str("slot0_structure", Z).num("candidates_tried", tried).done());
    }
    // (c) clear() followed directly by pawnless and by ordinary positions, on a used evaluator
    {
        PositionScorer L;
        for (int i = 0; i < 300; ++i)
        {
            std::string f = random_pawn_fen(*RNG, true);
            Position P(f);
            L.score(P);
        }
        L.clear();
        for (const char* q : PAWNLESS)
        {
            Position PQ(q);
            Value v = L.score(PQ), fq = fresh_score(q);
            rec.evaluations++;
            if (v != fq) rec.violation("used-clear-pawnless", vh::J().str("pawnless", q).num("fresh", fq).num("after_clear", v).done());
        }
    }
}

void c14_extremes()
{
    static const char* EXT[] = {
        "QQQQQQQQ/Q7/8/8/8/8/8/K6k w - - 0 1",  "qqqqqqqq/q7/8/8/8/8/8/k6K w - - 0 1",  "QQQQQQQQ/Q7/8/8/8/8/8/K6k b - - 0 1",
        "RRRRRRRR/RR6/8/8/8/8/8/K6k w - - 0 1", "QQQQQQQQ/Q6r/8/8/8/8/8/K6k w - - 0 1", "QQQQQQQQ/QRRBBNN1/8/8/8/8/p7/K6k w - - 0 1",
        "R6R/3Q4/1Q4Q1/4Q3/2Q4Q/Q4Q2/pp1Q4/kBNN1KB1 w - - 0 1", "QQQQQQQQ/Q6p/8/8/8/8/8/K6k w - - 0 1", "8/8/8/8/8/8/PPPPPPPP/K6k w - - 0 1",
        "BBBBBBBB/BB6/8/8/8/8/8/K6k w - - 0 1", "NNNNNNNN/NN6/8/8/8/8/8/K6k w - - 0 1", "QQQQQQQQ/QP6/8/8/8/8/7p/K6k w - - 0 1",
        "7k/PPPPPPPP/8/8/8/8/8/K7 w - - 0 1", "QQQQQQQQ/Q7/8/8/8/8/7q/K6k w - - 0 1", "QQQQQQQQ/QRRBBNN1/1PPPPPP1/8/8/8/r7/K6k w - - 0 1",
    };
    PositionScorer L;
    // random maximal-material lone-king positions: nine queens plus rooks / minor pieces / the full original army
    static const char* ARMIES[] = {"QQQQQQQQQR", "QQQQQQQQRR", "QQQQQQQQQ", "QQQQQQQRRBBNN", "QQQQQQQQQRBN", "QQQQQQQRRBBNNPP", "RRRRRRRRRRQ", "QQQQQQQQQRR"};
    for (int i = 0; i < 60; ++i)
    {
        Board b;
        int strong = int(RNG->below(2));
        b.stm = 1 - strong;  // the lone king moves: the strong king cannot be in check
        const char* army = ARMIES[RNG->below(8)];
        for (const char* p = army; *p; ++p)
            for (int t = 0; t < 30 && !gen::put(b, RNG->below(64), orc::make_pc(strong, kind_of_char(*p))); ++t) {}
        gen::put_kings(*RNG, b);
        if (b.king_sq(0) < 0 || b.king_sq(1) < 0 || !b.retro_legal()) continue;
        bool ok = true;
        for (int c = 0; c < 2; ++c)
            for (int k = orc::KNIGHT; k <= orc::QUEEN; ++k)
                if (b.count(orc::make_pc(c, k)) > 10) ok = false;
        if (!ok) continue;
        std::string fen = b.fen();
        vh::set_case(fen.c_str(), "c14-extreme-random");
        Position P(fen);
        Value v = L.score(P);
        rec.evaluations++;
        rec.count("extreme-material-positions");
        check_bound(fen, v, "extreme-material:lone-king");
    }
    for (const char* f : EXT)
    {
        Board b;
        if (!Board::from_fen(f, b) || !b.retro_legal()) continue;
        for (int m = 0; m < 2; ++m)
        {
            std::string fen = (m ? b.mirrored() : b).fen();
            vh::set_case(fen.c_str(), "c14-extreme");
            Position P(fen);
            Value v = L.score(P);
            rec.evaluations++;
            rec.count("extreme-material-positions");
            check_bound(fen, v, "extreme-material");
        }
    }
}

}  // namespace

int main(int argc, char** argv)
{
    vh::Args args(argc, argv);
    vh::install_crash_handlers();
    PROP = args.str("prop", "C13");
    orc::Rng rng(uint64_t(args.num("seed", 1)) * 0xD1B54A32D192ED03ULL + 5);
    RNG = &rng;
    glue::init_engine();
    long games = args.num("games", 40), plies = args.num("plies", 120), synth = args.num("synth", 2000), eg = args.num("endgames", 200);
    gen::Policy pol;

    if (PROP == "C13")
    {
        PositionScorer live;
        long n = 0;
        for (long i = 0; i < games; ++i)
        {
            Board b = (i % 3 == 0) ? Board::startpos() : Board::fen(gen::CORPUS[rng.below(gen::CORPUS_N)]);
            if (i % 3 == 2)
            {
                // sparse endings: captures and promotions move the game through the specialised classes
                Board e;
                if (gen_endgame(rng, EG[rng.below(EG_N)], int(rng.below(2)), e)) b = e;
            }
            gen::Game g = gen::random_game(rng, b, int(plies), pol, "game");
            // the same game and its colour mirror played on two engine positions (piece lists, counts and keys then come from
            // do_move, not from the FEN parser): the live positions must be judged alike as well
            Position PW(b.fen()), PM(b.mirrored().fen());
            for (size_t k = 0; k <= g.moves.size(); ++k)
            {
                check_c13(live, b, "game", n++);
                {
                    std::string fw = b.fen();
                    vh::set_case(fw.c_str(), "c13 played game vs mirrored game");
                    PositionScorer s1, s2;
                    bool fresh_pair = (k % 16) == 0;
                    Value a = fresh_pair ? s1.score(PW) : live.score(PW), m = fresh_pair ? s2.score(PM) : live.score(PM);
                    rec.evaluations++;
                    rec.count("played-vs-mirrored-game-positions");
                    if (a != m && !b.insufficient_material())
                        rec.violation("played-game-vs-mirrored-game:" + material_sig(b), vh::J().str("fen", fw).num("ply", (long long)k).num("score", a).num("mirror_score", m).str("start", g.start_fen).done());
                }
                if (k < g.moves.size())
                {
                    const orc::Move& mv = g.moves[k];
                    Board mb = b.mirrored();
                    PW.do_move(glue::to_engine(mv, b));
                    PM.do_move(glue::to_engine(orc::mirror_move(mv), mb));
                    b = b.after(mv);
                }
            }
        }
        for (long i = 0; i < synth; ++i)
        {
            Board b = gen::synth(rng, int(i % gen::T_COUNT));
            check_c13(live, b, std::string("synth"), n++);
        }
        // classes and colours interleaved at random: state that survives from one evaluation to the next (a memo in the
        // dispatcher, say) meets every class transition, not just runs of one class
        std::vector<std::pair<int, int>> order;
        for (int c = 0; c < EG_N; ++c)
            for (int strong = 0; strong < 2; ++strong)
                for (long i = 0; i < eg; ++i) order.push_back({c, strong});
        for (size_t i = order.size(); i > 1; --i) std::swap(order[i - 1], order[rng.below(uint32_t(i))]);
        for (size_t oi = 0; oi < order.size(); ++oi)
                {
                    int c = order[oi].first, strong = order[oi].second;
                    long i = long(oi);
                    Board b;
                    if (!gen_endgame(rng, EG[c], strong, b)) continue;
                    check_c13(live, b, std::string(EG[c].name) + (strong ? ":black-strong" : ":white-strong"), n++);
                    // and a few plies of play from it (captures move it into neighbouring classes)
                    if (i % 4 == 0)
                    {
                        gen::Game g = gen::random_game(rng, b, 4, pol, "eg");
                        for (const orc::Move& m : g.moves)
                        {
                            b = b.after(m);
                            check_c13(live, b, std::string(EG[c].name) + "+play", n++);
                        }
                    }
                }
    }
    else
    {
        Triple t;
        long streams = args.num("streams", games);
        for (long i = 0; i < streams; ++i)
        {
            std::vector<std::string> fens;
            std::string shape = "game";
            if (i % 3 == 2)
            {
                shape = "endgames";
                for (int k = 0; k < 150;)
                {
                    Board b;
                    if (!gen_endgame(rng, EG[rng.below(EG_N)], rng.below(2), b)) continue;
                    fens.push_back(b.fen());
                    ++k;
                }
            }
            else
            {
                Board b = (i % 3 == 0) ? Board::startpos() : Board::fen(gen::CORPUS[rng.below(gen::CORPUS_N)]);
                gen::Game g = gen::random_game(rng, b, int(plies), pol, "game");
                fens.push_back(b.fen());
                for (const orc::Move& m : g.moves)
                {
                    b = b.after(m);
                    fens.push_back(b.fen());
                }
            }
            c14_stream(t, fens, shape);
            rec.count("streams");
        }
        for (long i = 0; i < synth; ++i)
        {
            Board b = gen::synth(rng, int(i % gen::T_COUNT));
            std::string f = b.fen();
            vh::set_case(f.c_str(), "c14-synth");
            Position P(f);
            Value v = t.l1.score(P);
            rec.evaluations++;
            check_bound(f, v, std::string("synth:") + gen::TEMPLATE_NAME[i % gen::T_COUNT]);
        }
        for (int c = 0; c < EG_N; ++c)
            for (long i = 0; i < eg / 4 + 1;)
            {
                Board b;
                if (!gen_endgame(rng, EG[c], rng.below(2), b)) continue;
                ++i;
                std::string f = b.fen();
                Position P(f);
                Value v = t.l1.score(P);
                rec.evaluations++;
                check_bound(f, v, std::string("endgame:") + EG[c].name);
            }
        c14_extremes();
        if (args.has("directed")) c14_directed(args.num("slot0", 1500000));
    }
    rec.emit();
    return 0;
}
