// Workload generators. Use the oracle only (never the engine), all seeded.
#ifndef VERIF_HARNESS_GEN_H
#define VERIF_HARNESS_GEN_H

#include "chess.h"

#include <algorithm>
#include <string>
#include <vector>

namespace gen
{
using orc::Board;
using orc::Move;
using orc::Rng;

static const char* const CORPUS[] = {
    "rnbqkbnr/pppppppp/8/8/8/8/PPPPPPPP/RNBQKBNR w KQkq - 0 1",
    "r3k2r/p1ppqpb1/bn2pnp1/3PN3/1p2P3/2N2Q1p/PPPBBPPP/R3K2R w KQkq - 0 1",
    "8/2p5/3p4/KP5r/1R3p1k/8/4P1P1/8 w - - 0 1",
    "r3k2r/Pppp1ppp/1b3nbN/nP6/BBP1P3/q4N2/Pp1P2PP/R2Q1RK1 w kq - 0 1",
    "r2q1rk1/pP1p2pp/Q4n2/bbp1p3/Np6/1B3NBn/pPPP1PPP/R3K2R b KQ - 0 1",
    "rnbq1k1r/pp1Pbppp/2p5/8/2B5/8/PPP1NnPP/RNBQK2R w KQ - 1 8",
    "r4rk1/1pp1qppp/p1np1n2/2b1p1B1/2B1P1b1/P1NP1N2/1PP1QPPP/R4RK1 w - - 0 10",
    "r6r/1b2k1bq/8/8/7B/8/8/R3K2R b KQ - 3 2",
    "8/8/8/2k5/2pP4/8/B7/4K3 b - d3 0 3",
    "r3k2r/p1pp1pb1/bn2Qnp1/2qPN3/1p2P3/2N5/PPPBBPPP/R3K2R b KQkq - 3 2",
    "2kr3r/p1ppqpb1/bn2Qnp1/3PN3/1p2P3/2N5/PPPBBPPP/R3K2R b KQ - 3 2",
    "rnb2k1r/pp1Pbppp/2p5/q7/2B5/8/PPPQNnPP/RNB1K2R w KQ - 3 9",
    "3k4/3p4/8/K1P4r/8/8/8/8 b - - 0 1",
    "8/8/4k3/8/2p5/8/B2P2K1/8 w - - 0 1",
    "8/8/1k6/2b5/2pP4/8/5K2/8 b - d3 0 1",
    "5k2/8/8/8/8/8/8/4K2R w K - 0 1",
    "3k4/8/8/8/8/8/8/R3K3 w Q - 0 1",
    "r3k2r/1b4bq/8/8/8/8/7B/R3K2R w KQkq - 0 1",
    "r3k2r/8/3Q4/8/8/5q2/8/R3K2R b KQkq - 0 1",
    "2K2r2/4P3/8/8/8/8/8/3k4 w - - 0 1",
    "8/8/1P2K3/8/2n5/1q6/8/5k2 b - - 0 1",
    "4k3/1P6/8/8/8/8/K7/8 w - - 0 1",
    "8/P1k5/K7/8/8/8/8/8 w - - 0 1",
    "8/k1P5/8/1K6/8/8/8/8 w - - 0 1",
    "8/8/2k5/5q2/5n2/8/5K2/8 b - - 0 1",
    "r2q1rk1/ppp2ppp/3p1n2/4p3/1bPnP3/2NP1BPP/PP1B1P2/R2QK2R b KQ - 2 10",
    "1k1r4/pp1b1R2/3q2pp/4p3/2B5/4Q3/PPP2B2/2K5 b - - 0 1",
    "3r1k2/4npp1/1ppr3p/p6P/P2PPPP1/1NR5/5K2/2R5 w - - 0 1",
    "2q1rr1k/3bbnnp/p2p1pp1/2pPp3/PpP1P1P1/1P2BNNP/2BQ1PRK/7R b - - 0 1",
    "rnbqkb1r/p3pppp/1p6/2ppP3/3N4/2P5/PPP1QPPP/R1B1KB1R w KQkq - 0 1",
    "r1b2rk1/2q1b1pp/p2ppn2/1p6/3QP3/1BN1B3/PPP3PP/R4RK1 w - - 0 1",
    "2r3k1/pppR1pp1/4p3/4P1P1/5P2/1P4K1/P1P5/8 w - - 0 1",
    "4b3/p3kp2/6p1/3pP2p/2pP1P2/4K1P1/P3N2P/8 w - - 0 1",
    "2kr1bnr/pbpq4/2n1pp2/3p3p/3P1P1B/2N2N1Q/PPP3PP/2KR1B1R w - - 0 1",
    "r1bqk2r/pp2bppp/2p5/3pP3/P2Q1P2/2N1B3/1PP3PP/R4RK1 b kq - 0 1",
    "r1bqkb1r/4npp1/p1p4p/1p1pP1B1/8/1B6/PPPN1PPP/R2Q1RK1 w kq - 0 1",
    "8/8/8/8/8/4k3/4p3/4K3 w - - 0 1",
    "8/5k2/8/8/8/8/1KP5/8 w - - 0 1",
    "8/8/8/3k4/8/3K4/3R4/8 w - - 0 1",
    "8/8/4k3/8/8/2B1K3/2N5/8 w - - 0 1",
    "8/8/4k3/8/8/2B1K3/8/8 w - - 0 1",
    "8/8/4kb2/8/8/2B1K3/8/8 w - - 0 1",
    "6k1/5ppp/8/8/8/8/8/1RK5 w - - 0 1",
    "7k/5Q2/6K1/8/8/8/8/8 b - - 0 1",
    "k7/8/1K6/8/8/8/8/7Q b - - 0 1",
    "R6R/3Q4/1Q4Q1/4Q3/2Q4Q/Q4Q2/pp1Q4/kBNN1KB1 w - - 0 1",
    "3Q4/1Q4Q1/4Q3/2Q4R/Q4Q2/3Q4/1Q4Rp/1K1BBNNk w - - 0 1",
    "k7/8/1r1q1r1q/b1q1n1q1/1Q1N1Q1B/Q1R1Q1R1/8/7K w - - 0 1",
    "r3k2r/8/8/8/8/8/8/R3K2R w KQkq - 5 10",
    "rnbqkbnr/pppp1ppp/8/4p3/4P3/8/PPPP1PPP/RNBQKBNR w KQkq e6 0 2",
    "8/6b1/8/4Pp2/8/2K5/8/7k w - f6 0 2",
    "8/8/8/8/k2Pp2R/8/8/4K3 b - d3 0 1",
};
static const int CORPUS_N = int(sizeof(CORPUS) / sizeof(CORPUS[0]));

struct Game
{
    std::string start_fen;
    std::vector<Move> moves;
    std::string tag;
};

struct Policy
{
    double rep_bias = 0.15;     // probability of preferring an "undo my last move" move
    double mate_bias = 0.5;     // take a mating / stalemating move when available
    bool reversible_only = false;  // shuffle games for transpositions (no pawn moves, no captures)
    int max_clock = 150;
};

inline bool gives_check(const Board& b, const Move& m)
{
    Board n = b.after(m);
    return n.in_check(n.stm);
}

// weighted choice of the next move; returns false if play must stop
inline bool choose_move(Rng& rng, const Board& b, const std::vector<Move>& legal, const Move* my_last, const Policy& pol, Move& out)
{
    std::vector<std::pair<double, const Move*>> w;
    double total = 0;
    if (!pol.reversible_only && pol.mate_bias > 0 && rng.chance(pol.mate_bias))
    {
        std::vector<const Move*> enders;
        for (const Move& m : legal)
        {
            Board n = b.after(m);
            if (!n.has_legal()) enders.push_back(&m);
        }
        if (!enders.empty())
        {
            out = *enders[rng.below(uint32_t(enders.size()))];
            return true;
        }
    }
    for (const Move& m : legal)
    {
        bool irreversible = orc::kind_of(b.sq[m.from]) == orc::PAWN || b.is_capture(m);
        if (b.halfmove >= pol.max_clock && !irreversible) continue;  // 75-move rule: the game is over otherwise
        if (pol.reversible_only && (irreversible || b.is_castle(m))) continue;
        double x = 1.0;
        if (b.is_castle(m)) x = 12;
        else if (b.is_ep(m)) x = 25;
        else if (m.promo) x = 5;
        else if (b.is_capture(m)) x = 2.5;
        else if (b.is_double_push(m)) x = 2;
        if (my_last && m.from == my_last->to && m.to == my_last->from && !m.promo) x *= 1 + pol.rep_bias * 40;
        w.push_back({x, &m});
        total += x;
    }
    if (w.empty()) return false;
    double r = (rng.next() >> 11) * (1.0 / 9007199254740992.0) * total;
    for (auto& p : w)
    {
        r -= p.first;
        if (r <= 0)
        {
            out = *p.second;
            return true;
        }
    }
    out = *w.back().second;
    return true;
}

inline Game random_game(Rng& rng, const Board& start, int max_plies, const Policy& pol, const std::string& tag)
{
    Game g;
    g.start_fen = start.fen();
    g.tag = tag;
    Board b = start;
    Move last[2];
    bool has_last[2] = {false, false};
    for (int ply = 0; ply < max_plies; ++ply)
    {
        std::vector<Move> legal = b.legal();
        if (legal.empty()) break;
        Move m;
        if (!choose_move(rng, b, legal, has_last[b.stm] ? &last[b.stm] : nullptr, pol, m)) break;
        last[b.stm] = m;
        has_last[b.stm] = true;
        g.moves.push_back(m);
        b = b.after(m);
    }
    return g;
}

// ---------------------------------------------------------------- synthetic positions

inline bool put(Board& b, int sq, int pc)
{
    if (sq < 0 || sq > 63 || b.sq[sq] != orc::EMPTY) return false;
    int k = orc::kind_of(pc);
    if (k == orc::PAWN && (orc::rank_of(sq) == 0 || orc::rank_of(sq) == 7)) return false;
    b.sq[sq] = pc;
    return true;
}

inline int rand_kind(Rng& rng, bool allow_pawn = true)
{
    static const int K[] = {orc::PAWN, orc::PAWN, orc::PAWN, orc::KNIGHT, orc::KNIGHT, orc::BISHOP, orc::BISHOP, orc::ROOK, orc::ROOK, orc::QUEEN};
    for (;;)
    {
        int k = K[rng.below(10)];
        if (k != orc::PAWN || allow_pawn) return k;
    }
}

inline void sprinkle(Rng& rng, Board& b, int n)
{
    for (int i = 0; i < n; ++i) put(b, rng.below(64), orc::make_pc(rng.below(2), rand_kind(rng)));
}

inline void put_kings(Rng& rng, Board& b)
{
    if (b.king_sq(orc::WHITE) < 0)
        while (!put(b, rng.below(64), orc::WK)) {}
    if (b.king_sq(orc::BLACK) < 0)
        while (!put(b, rng.below(64), orc::BK)) {}
}

// try to fabricate an en-passant situation on file f for side-to-move b.stm
inline void add_ep(Rng& rng, Board& b, int f, int capturers /*bitmask 1=left 2=right*/)
{
    int mover = 1 - b.stm;
    int origin = orc::sq_of(f, mover == orc::WHITE ? 1 : 6);
    int passed = orc::sq_of(f, mover == orc::WHITE ? 2 : 5);
    int target = orc::sq_of(f, mover == orc::WHITE ? 3 : 4);
    if (orc::kind_of(b.sq[origin]) == orc::KING || orc::kind_of(b.sq[passed]) == orc::KING || orc::kind_of(b.sq[target]) == orc::KING) return;
    b.sq[origin] = orc::EMPTY;
    b.sq[passed] = orc::EMPTY;
    b.sq[target] = orc::make_pc(mover, orc::PAWN);
    b.ep = passed;
    int r = orc::rank_of(target);
    if ((capturers & 1) && f > 0 && orc::kind_of(b.sq[orc::sq_of(f - 1, r)]) != orc::KING) b.sq[orc::sq_of(f - 1, r)] = orc::make_pc(b.stm, orc::PAWN);
    if ((capturers & 2) && f < 7 && orc::kind_of(b.sq[orc::sq_of(f + 1, r)]) != orc::KING) b.sq[orc::sq_of(f + 1, r)] = orc::make_pc(b.stm, orc::PAWN);
    (void)rng;
}

inline void add_castling(Rng& rng, Board& b)
{
    // put kings and rooks at home with probability, grant consistent rights
    if (rng.chance(0.7))
    {
        int wk = b.king_sq(orc::WHITE);
        if (wk >= 0) b.sq[wk] = orc::EMPTY;
        b.sq[4] = orc::WK;
        if (rng.chance(0.8)) b.sq[7] = orc::WR;
        if (rng.chance(0.8)) b.sq[0] = orc::WR;
    }
    if (rng.chance(0.7))
    {
        int bk = b.king_sq(orc::BLACK);
        if (bk >= 0) b.sq[bk] = orc::EMPTY;
        b.sq[60] = orc::BK;
        if (rng.chance(0.8)) b.sq[63] = orc::BR;
        if (rng.chance(0.8)) b.sq[56] = orc::BR;
    }
    b.castle = 0;
    if (b.sq[4] == orc::WK && b.sq[7] == orc::WR && rng.chance(0.85)) b.castle |= orc::CK;
    if (b.sq[4] == orc::WK && b.sq[0] == orc::WR && rng.chance(0.85)) b.castle |= orc::CQ;
    if (b.sq[60] == orc::BK && b.sq[63] == orc::BR && rng.chance(0.85)) b.castle |= orc::Ck;
    if (b.sq[60] == orc::BK && b.sq[56] == orc::BR && rng.chance(0.85)) b.castle |= orc::Cq;
}

enum Template
{
    T_SOUP,
    T_EP,
    T_PIN,
    T_CHECK,
    T_CASTLE,
    T_PROMO,
    T_MANY,
    T_SPARSE,
    T_COUNT
};
static const char* const TEMPLATE_NAME[] = {"soup", "ep-matrix", "pin-matrix", "check-matrix", "castle-matrix", "promo-matrix", "many-pieces", "sparse"};

// squares on the line from `from` in direction (df,dr), nearest first
inline std::vector<int> ray(int from, int df, int dr)
{
    std::vector<int> v;
    int f = orc::file_of(from) + df, r = orc::rank_of(from) + dr;
    while (orc::on_board(f, r))
    {
        v.push_back(orc::sq_of(f, r));
        f += df;
        r += dr;
    }
    return v;
}

static const int DIRS[8][2] = {{1, 0}, {-1, 0}, {0, 1}, {0, -1}, {1, 1}, {-1, 1}, {1, -1}, {-1, -1}};

inline int slider_for(Rng& rng, int color, int dir_index, double wrong = 0.1)
{
    bool diag = dir_index >= 4;
    int k = rng.chance(0.4) ? orc::QUEEN : diag ? orc::BISHOP : orc::ROOK;
    if (rng.chance(wrong)) k = diag ? orc::ROOK : orc::BISHOP;
    return orc::make_pc(color, k);
}

inline Board synth_raw(Rng& rng, int t)
{
    Board b;
    b.stm = rng.below(2);
    b.halfmove = rng.below(4) == 0 ? rng.below(150) : 0;  // legal play ends at 150 (75-move rule); clocks above 127 exercise the 8-bit undo field
    b.fullmove = 1 + rng.below(80);
    int us = b.stm, them = 1 - us;
    switch (t)
    {
    case T_SOUP:
    {
        put_kings(rng, b);
        sprinkle(rng, b, rng.below(22));
        if (rng.chance(0.35)) add_castling(rng, b);
        if (rng.chance(0.3)) add_ep(rng, b, rng.below(8), rng.below(4));
        break;
    }
    case T_SPARSE:
    {
        put_kings(rng, b);
        sprinkle(rng, b, rng.below(5));
        break;
    }
    case T_EP:
    {
        int f = rng.below(8);
        int cap = 1 + rng.below(3);
        if (rng.chance(0.1)) cap = 0;
        add_ep(rng, b, f, cap);
        int r = orc::rank_of(b.ep) + (us == orc::WHITE ? -1 : 1);  // rank of the pawns
        int target = orc::sq_of(f, r);
        // choose the geometry for our king
        int mode = rng.below(7);
        std::vector<int> cands;
        int capsq = -1;
        if ((cap & 1) && f > 0) capsq = orc::sq_of(f - 1, r);
        if ((cap & 2) && f < 7 && (capsq < 0 || rng.chance(0.5))) capsq = orc::sq_of(f + 1, r);
        int anchor = capsq >= 0 ? capsq : target;
        int di = -1;
        if (mode == 0)
            di = rng.below(2);  // same rank as the pawns
        else if (mode == 1)
            di = 4 + rng.below(4);  // a diagonal through the capturer
        else if (mode == 2)
        {
            anchor = target;
            di = 4 + rng.below(4);  // a diagonal through the pushed pawn
        }
        else if (mode == 3)
            di = 2 + rng.below(2);  // file of the capturer
        else if (mode == 4)
        {
            anchor = b.ep;
            di = rng.below(8);  // a line through the ep square
        }
        if (di >= 0)
        {
            std::vector<int> kr = ray(anchor, DIRS[di][0], DIRS[di][1]);
            std::vector<int> sr = ray(anchor, -DIRS[di][0], -DIRS[di][1]);
            if (!kr.empty()) put(b, kr[rng.below(uint32_t(kr.size()))], orc::make_pc(us, orc::KING));
            if (!sr.empty() && rng.chance(0.85)) put(b, sr[rng.below(uint32_t(sr.size()))], slider_for(rng, them, di));
        }
        put_kings(rng, b);
        // the pushed pawn may give check / discover a check: occasionally put a slider behind the origin square
        if (rng.chance(0.25))
        {
            int origin = orc::sq_of(f, them == orc::WHITE ? 1 : 6);
            int k = b.king_sq(us);
            int df = orc::file_of(origin) - orc::file_of(k), dr = orc::rank_of(origin) - orc::rank_of(k);
            if ((df == 0 || dr == 0 || std::abs(df) == std::abs(dr)) && (df || dr))
            {
                int sdf = (df > 0) - (df < 0), sdr = (dr > 0) - (dr < 0);
                std::vector<int> beyond = ray(origin, sdf, sdr);
                int dix = (sdf && sdr) ? 4 : 0;
                if (!beyond.empty()) put(b, beyond[rng.below(uint32_t(beyond.size()))], slider_for(rng, them, dix, 0.0));
            }
        }
        sprinkle(rng, b, rng.below(6));
        break;
    }
    case T_PIN:
    {
        put(b, rng.below(64), orc::make_pc(us, orc::KING));
        int k = b.king_sq(us);
        int npins = 1 + rng.below(3);
        for (int i = 0; i < npins; ++i)
        {
            int di = rng.below(8);
            std::vector<int> r = ray(k, DIRS[di][0], DIRS[di][1]);
            if (r.size() < 2) continue;
            int a = rng.below(uint32_t(r.size() - 1));
            int c = a + 1 + rng.below(uint32_t(r.size() - 1 - a));
            put(b, r[a], orc::make_pc(us, rand_kind(rng)));
            put(b, r[c], slider_for(rng, them, di));
            // something the pinned piece could capture off / on the ray
            if (rng.chance(0.5)) put(b, rng.below(64), orc::make_pc(them, rand_kind(rng)));
        }
        put_kings(rng, b);
        if (rng.chance(0.3)) add_ep(rng, b, rng.below(8), 1 + rng.below(3));
        sprinkle(rng, b, rng.below(8));
        break;
    }
    case T_CHECK:
    {
        put(b, rng.below(64), orc::make_pc(us, orc::KING));
        int k = b.king_sq(us);
        int nchk = rng.chance(0.3) ? 2 : 1;
        for (int i = 0; i < nchk; ++i)
        {
            int kind = rand_kind(rng);
            if (kind == orc::KNIGHT)
            {
                static const int KD[8][2] = {{1, 2}, {2, 1}, {2, -1}, {1, -2}, {-1, -2}, {-2, -1}, {-2, 1}, {-1, 2}};
                int j = rng.below(8);
                int f = orc::file_of(k) + KD[j][0], r = orc::rank_of(k) + KD[j][1];
                if (orc::on_board(f, r)) put(b, orc::sq_of(f, r), orc::make_pc(them, orc::KNIGHT));
            }
            else if (kind == orc::PAWN)
            {
                int dr = us == orc::WHITE ? 1 : -1;
                int f = orc::file_of(k) + (rng.below(2) ? 1 : -1), r = orc::rank_of(k) + dr;
                if (orc::on_board(f, r)) put(b, orc::sq_of(f, r), orc::make_pc(them, orc::PAWN));
            }
            else
            {
                int di = rng.below(8);
                std::vector<int> r = ray(k, DIRS[di][0], DIRS[di][1]);
                if (!r.empty()) put(b, r[rng.below(uint32_t(r.size()))], slider_for(rng, them, di, 0.0));
            }
        }
        // defenders, some of them pinned
        for (int i = rng.below(4); i > 0; --i)
        {
            int di = rng.below(8);
            std::vector<int> r = ray(k, DIRS[di][0], DIRS[di][1]);
            if (r.size() >= 2 && rng.chance(0.5))
            {
                put(b, r[0], orc::make_pc(us, rand_kind(rng)));
                put(b, r[1 + rng.below(uint32_t(r.size() - 1))], slider_for(rng, them, di));
            }
            else
                put(b, rng.below(64), orc::make_pc(us, rand_kind(rng)));
        }
        put_kings(rng, b);
        if (rng.chance(0.2)) add_ep(rng, b, rng.below(8), 1 + rng.below(3));
        sprinkle(rng, b, rng.below(6));
        break;
    }
    case T_CASTLE:
    {
        b.sq[4] = orc::WK;
        b.sq[60] = orc::BK;
        if (rng.chance(0.9)) b.sq[7] = orc::WR;
        if (rng.chance(0.9)) b.sq[0] = orc::WR;
        if (rng.chance(0.9)) b.sq[63] = orc::BR;
        if (rng.chance(0.9)) b.sq[56] = orc::BR;
        // attackers aimed at the back ranks
        for (int i = rng.below(5); i > 0; --i)
        {
            int color = rng.below(2);
            int back = color == orc::WHITE ? 7 : 0;  // attacks the other side's back rank
            int tf = rng.below(8);
            int di = rng.below(8);
            std::vector<int> r = ray(orc::sq_of(tf, back), DIRS[di][0], DIRS[di][1]);
            if (!r.empty())
                put(b, r[rng.below(uint32_t(r.size()))], rng.chance(0.25) ? orc::make_pc(color, orc::KNIGHT) : slider_for(rng, color, di, 0.0));
        }
        // pieces standing between king and rook, b1/b8 in particular
        if (rng.chance(0.3)) put(b, 1, orc::make_pc(rng.below(2), orc::KNIGHT));
        if (rng.chance(0.3)) put(b, 57, orc::make_pc(rng.below(2), orc::KNIGHT));
        if (rng.chance(0.15)) put(b, rng.below(8), orc::make_pc(orc::WHITE, orc::BISHOP));
        if (rng.chance(0.15)) put(b, 56 + rng.below(8), orc::make_pc(orc::BLACK, orc::BISHOP));
        // an enemy piece right next to the mover's king on its back rank: the king may capture it (e1d1 / e1f1 with the
        // castling rights still intact: a king move along the back rank that is NOT castling)
        if (rng.chance(0.25))
        {
            static const int KINDS[] = {orc::ROOK, orc::ROOK, orc::QUEEN, orc::BISHOP, orc::KNIGHT};
            int ksq = us == orc::WHITE ? 4 : 60;
            b.sq[ksq + (rng.below(2) ? 1 : -1)] = orc::make_pc(them, KINDS[rng.below(5)]);
        }
        sprinkle(rng, b, rng.below(8));
        b.castle = 0;
        if (b.sq[7] == orc::WR && rng.chance(0.9)) b.castle |= orc::CK;
        if (b.sq[0] == orc::WR && rng.chance(0.9)) b.castle |= orc::CQ;
        if (b.sq[63] == orc::BR && rng.chance(0.9)) b.castle |= orc::Ck;
        if (b.sq[56] == orc::BR && rng.chance(0.9)) b.castle |= orc::Cq;
        break;
    }
    case T_PROMO:
    {
        int r7 = us == orc::WHITE ? 6 : 1, r8 = us == orc::WHITE ? 7 : 0;
        // enemy king on the last rank (promotion checks) most of the time
        if (rng.chance(0.7)) put(b, orc::sq_of(rng.below(8), r8 == 7 ? 7 - rng.below(2) : rng.below(2)), orc::make_pc(them, orc::KING));
        for (int i = 1 + rng.below(4); i > 0; --i)
        {
            int f = rng.below(8);
            put(b, orc::sq_of(f, r7), orc::make_pc(us, orc::PAWN));
            if (rng.chance(0.4) && f > 0) put(b, orc::sq_of(f - 1, r8), orc::make_pc(them, rand_kind(rng, false)));
            if (rng.chance(0.4) && f < 7) put(b, orc::sq_of(f + 1, r8), orc::make_pc(them, rand_kind(rng, false)));
            if (rng.chance(0.2)) put(b, orc::sq_of(f, r8), orc::make_pc(them, rand_kind(rng, false)));
        }
        put_kings(rng, b);
        // pin some 7th-rank pawns
        if (rng.chance(0.4))
        {
            int k = b.king_sq(us);
            int di = rng.below(8);
            std::vector<int> r = ray(k, DIRS[di][0], DIRS[di][1]);
            for (size_t i = 0; i + 1 < r.size(); ++i)
                if (b.sq[r[i]] == orc::make_pc(us, orc::PAWN))
                {
                    put(b, r[i + 1 + rng.below(uint32_t(r.size() - 1 - i))], slider_for(rng, them, di, 0.0));
                    break;
                }
        }
        sprinkle(rng, b, rng.below(8));
        break;
    }
    case T_MANY:
    {
        put_kings(rng, b);
        int kind = orc::KNIGHT + rng.below(4);
        int color = rng.below(2);
        int n = 6 + rng.below(5);
        for (int i = 0; i < n; ++i)
            for (int tries = 0; tries < 20 && !put(b, rng.below(64), orc::make_pc(color, kind)); ++tries) {}
        if (rng.chance(0.5))
        {
            int kind2 = orc::KNIGHT + rng.below(4);
            int n2 = 4 + rng.below(7);
            for (int i = 0; i < n2; ++i)
                for (int tries = 0; tries < 20 && !put(b, rng.below(64), orc::make_pc(1 - color, kind2)); ++tries) {}
        }
        sprinkle(rng, b, rng.below(10));
        break;
    }
    }
    return b;
}

// The domain allows at most 10 pieces of a kind per side; every move played from a
// generated position must stay inside it, so a side's pawns (each a potential
// promotion) plus its pieces of any one kind must not exceed 10.
inline bool promotions_stay_in_domain(const Board& b)
{
    for (int c = 0; c < 2; ++c)
    {
        int pawns = b.count(orc::make_pc(c, orc::PAWN));
        for (int k = orc::KNIGHT; k <= orc::QUEEN; ++k)
            if (b.count(orc::make_pc(c, k)) + pawns > 10) return false;
    }
    return true;
}

// a retro-legal synthetic position (Appendix A.1); counts rejected attempts
inline Board synth(Rng& rng, int t, long* rejected = nullptr)
{
    for (;;)
    {
        Board b = synth_raw(rng, t);
        if (b.king_sq(orc::WHITE) >= 0 && b.king_sq(orc::BLACK) >= 0 && b.retro_legal() && promotions_stay_in_domain(b)) return b;
        if (rejected) ++*rejected;
    }
}

// A rook captured on its home corner while its castling right is still intact: by a promoting pawn from the neighbouring
// file (half of the cases), by a slider or by a knight. `first` is the capture. What follows (the right is gone for good, so
// later positions are new positions for the repetition count and the key) is the caller's business.
inline bool corner_rook_capture(Rng& rng, Board& out, Move& first, int max_tries = 3000)
{
    for (int t = 0; t < max_tries; ++t)
    {
        Board b;
        b.stm = rng.below(2);
        b.halfmove = rng.below(30);
        b.fullmove = 1 + rng.below(60);
        int us = b.stm, them = 1 - us;
        int hr = them == orc::WHITE ? 0 : 7, r7 = them == orc::WHITE ? 1 : 6;
        b.sq[orc::sq_of(4, hr)] = orc::make_pc(them, orc::KING);
        bool kside = rng.below(2);
        int corner = orc::sq_of(kside ? 7 : 0, hr);
        b.sq[corner] = orc::make_pc(them, orc::ROOK);
        if (rng.below(2)) b.sq[orc::sq_of(kside ? 0 : 7, hr)] = orc::make_pc(them, orc::ROOK);
        int mode = rng.below(4);
        if (mode <= 1) b.sq[orc::sq_of(kside ? 6 : 1, r7)] = orc::make_pc(us, orc::PAWN);
        else if (mode == 2)
        {
            int di = rng.below(8);
            std::vector<int> r = ray(corner, DIRS[di][0], DIRS[di][1]);
            if (r.size() < 2) continue;
            put(b, r[1 + rng.below(uint32_t(r.size() - 1))], slider_for(rng, us, di, 0.0));
        }
        else
        {
            static const int KJ[8][2] = {{1, 2}, {2, 1}, {-1, 2}, {-2, 1}, {1, -2}, {2, -1}, {-1, -2}, {-2, -1}};
            int j = rng.below(8);
            int f = orc::file_of(corner) + KJ[j][0], r = orc::rank_of(corner) + KJ[j][1];
            if (!orc::on_board(f, r)) continue;
            put(b, orc::sq_of(f, r), orc::make_pc(us, orc::KNIGHT));
        }
        // our own king at home with rights now and then, so that both sides have something to lose
        if (rng.below(3) == 0 && put(b, orc::sq_of(4, 7 - hr), orc::make_pc(us, orc::KING)))
        {
            if (rng.below(2)) put(b, orc::sq_of(7, 7 - hr), orc::make_pc(us, orc::ROOK));
            if (rng.below(2)) put(b, orc::sq_of(0, 7 - hr), orc::make_pc(us, orc::ROOK));
        }
        put_kings(rng, b);
        sprinkle(rng, b, rng.below(7));
        b.castle = 0;
        if (b.sq[4] == orc::WK && b.sq[7] == orc::WR) b.castle |= orc::CK;
        if (b.sq[4] == orc::WK && b.sq[0] == orc::WR) b.castle |= orc::CQ;
        if (b.sq[60] == orc::BK && b.sq[63] == orc::BR) b.castle |= orc::Ck;
        if (b.sq[60] == orc::BK && b.sq[56] == orc::BR) b.castle |= orc::Cq;
        if (!b.retro_legal() || !promotions_stay_in_domain(b)) continue;
        std::vector<Move> caps;
        for (const Move& m : b.legal())
            if (m.to == corner) caps.push_back(m);
        if (caps.empty()) continue;
        first = caps[rng.below(uint32_t(caps.size()))];
        Board n = b.after(first);
        if (!n.has_legal()) continue;
        out = b;
        return true;
    }
    return false;
}

// A double push that gives check with the pawn itself where capturing it en passant is the ONLY legal reply
// (mate/stalemate predicates must say "neither"). Rejection sampling on the oracle; returns false if none was found.
inline bool only_ep_evasion(Rng& rng, Board& out, int max_tries = 4000)
{
    for (int t = 0; t < max_tries; ++t)
    {
        Board b;
        b.stm = rng.below(2);
        int us = b.stm, them = 1 - us;
        int f = int(rng.below(8));
        add_ep(rng, b, f, 1 + int(rng.below(3)));
        int pr = them == orc::WHITE ? 3 : 4;           // rank of the pushed pawn
        int kr = pr + (them == orc::WHITE ? 1 : -1);   // the pawn attacks diagonally forward
        int kf = f + (rng.below(2) ? 1 : -1);
        if (!orc::on_board(kf, kr) || !put(b, orc::sq_of(kf, kr), orc::make_pc(us, orc::KING))) continue;
        // cover the flight squares with heavy pieces, keep the capturing pawn(s) free to take
        for (int i = 2 + int(rng.below(3)); i > 0; --i) put(b, rng.below(64), orc::make_pc(them, rng.below(2) ? orc::QUEEN : orc::ROOK));
        if (rng.below(2)) put(b, rng.below(64), orc::make_pc(them, orc::KNIGHT));
        put_kings(rng, b);
        if (!b.retro_legal() || !promotions_stay_in_domain(b)) continue;
        std::vector<Move> legal = b.legal();
        if (legal.empty()) continue;
        bool all_ep = true;
        for (const Move& m : legal)
            if (!b.is_ep(m)) all_ep = false;
        if (!all_ep) continue;
        out = b;
        return true;
    }
    return false;
}

// ---------------------------------------------------------------- features (for coverage tables)

struct Features
{
    int checkers = 0;
    bool has_ep = false, ep_capturable = false, pinned = false, castle_right = false;
    int n_legal = 0;
    std::string cell() const
    {
        return "chk" + std::to_string(std::min(checkers, 2)) + (has_ep ? (ep_capturable ? "/ep+" : "/ep0") : "/ep-") + (pinned ? "/pin" : "/nopin") + (castle_right ? "/cr" : "/nocr");
    }
};

inline Features features(const Board& b, const std::vector<Move>& legal)
{
    Features f;
    f.checkers = b.checkers(b.stm);
    f.has_ep = b.ep >= 0;
    f.castle_right = b.castle != 0;
    f.n_legal = int(legal.size());
    std::vector<Move> ps;
    b.pseudo_legal(ps);
    for (const Move& m : ps)
    {
        if (b.is_ep(m)) f.ep_capturable = true;
        if (!f.checkers && orc::kind_of(b.sq[m.from]) != orc::KING && !b.is_ep(m) && std::find(legal.begin(), legal.end(), m) == legal.end()) f.pinned = true;
    }
    return f;
}

}  // namespace gen

#endif
