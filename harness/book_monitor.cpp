// C19: a loaded Polyglot book holds exactly the complete records of the file; lookups
// return recorded moves, decoded correctly, with the right selection distribution.
#include "common.h"
#include "gen.h"
#include "glue.h"
#include "polyglot_spec.h"

#include "polyglot.h"

#include <cmath>
#include <fstream>
#include <map>
#include <set>

using namespace engine;
using orc::Board;

namespace
{
vh::Recorder rec;
std::string TMP;

struct Rec
{
    uint64_t key;
    uint16_t move;
    uint16_t weight;
    uint32_t learn;
};

void put_be(std::string& s, uint64_t v, int bytes)
{
    for (int i = bytes - 1; i >= 0; --i) s += char((v >> (8 * i)) & 0xFF);
}

std::string serialise(const std::vector<Rec>& rs, int tail_bytes, orc::Rng& rng)
{
    std::string s;
    for (const Rec& r : rs)
    {
        put_be(s, r.key, 8);
        put_be(s, r.move, 2);
        put_be(s, r.weight, 2);
        put_be(s, r.learn, 4);
    }
    for (int i = 0; i < tail_bytes; ++i) s += char(rng.below(256));
    return s;
}

std::string hexdump(const std::string& s, size_t cap = 96)
{
    static const char* H = "0123456789abcdef";
    std::string o;
    for (size_t i = 0; i < s.size() && i < cap; ++i)
    {
        o += H[(unsigned char)s[i] >> 4];
        o += H[(unsigned char)s[i] & 15];
    }
    if (s.size() > cap) o += "...";
    return o;
}

std::string write_file(const std::string& bytes, const char* name)
{
    std::string path = TMP + "/" + name;
    std::ofstream f(path, std::ios::binary | std::ios::trunc);
    f.write(bytes.data(), std::streamsize(bytes.size()));
    f.close();
    return path;
}

// polyglot move code of an oracle move (castling = king takes own rook)
uint16_t pg_code(const Board& b, const orc::Move& m)
{
    int to = m.to;
    if (b.is_castle(m)) to = orc::sq_of(orc::file_of(m.to) == 6 ? 7 : 0, orc::rank_of(m.to));
    int promo = m.promo ? m.promo - 1 : 0;  // N=1 B=2 R=3 Q=4
    return uint16_t(orc::file_of(to) | orc::rank_of(to) << 3 | orc::file_of(m.from) << 6 | orc::rank_of(m.from) << 9 | promo << 12);
}

// raw engine encoding the reader is expected to store for a code
Move raw_of_code(uint16_t c)
{
    int tf = c & 7, tr = (c >> 3) & 7, ff = (c >> 6) & 7, fr = (c >> 9) & 7, p = (c >> 12) & 7;
    return create_promotion(Square(fr * 8 + ff), Square(tr * 8 + tf), p ? PieceKind(p + 1) : NO_PIECE_KIND);
}

using Multi = std::multiset<std::tuple<uint64_t, uint32_t, int>>;

Multi loaded(const PolyglotBook& book)
{
    Multi m;
    for (auto& kv : verif::PeekBook::records(book))
        for (auto& wm : kv.second) m.insert({kv.first, wm.first, wm.second});
    return m;
}

void check_load(orc::Rng& rng, long cases)
{
    for (long c = 0; c < cases; ++c)
    {
        int n = c < 20 ? int(c % 4) : int(rng.below(65));
        int tail = (c % 3 == 0) ? 0 : int(rng.below(16));
        if (c == 0)
        {
            n = 0;
            tail = 0;
        }  // the empty file
        std::vector<Rec> rs;
        std::vector<uint64_t> pool;
        for (int i = 0; i < 8; ++i) pool.push_back(rng.next());
        pool.push_back(0);
        for (int i = 0; i < n; ++i)
        {
            Rec r;
            r.key = rng.chance(0.6) ? pool[rng.below(uint32_t(pool.size()))] : rng.next();
            r.move = uint16_t(rng.below(1 << 15));
            if (((r.move >> 12) & 7) > 4) r.move &= 0x0FFF;
            static const uint16_t W[] = {0, 1, 2, 3, 7, 100, 65535};
            r.weight = W[rng.below(7)];
            r.learn = uint32_t(rng.next());
            rs.push_back(r);
        }
        std::string bytes = serialise(rs, tail, rng);
        vh::set_case_text("book load n=" + std::to_string(n) + " tail=" + std::to_string(tail) + " hex=" + hexdump(bytes, 400));
        std::string path = write_file(bytes, "load.bin");
        PolyglotBook book(path, 12345);
        Multi got = loaded(book), want;
        for (const Rec& r : rs) want.insert({r.key, raw_of_code(r.move), int(r.weight)});
        rec.evaluations++;
        rec.count(n == 0 ? "files:empty" : tail ? "files:truncated-tail" : "files:well-formed");
        if (got != want)
        {
            std::string kind = got.size() > want.size() ? "extra" : got.size() < want.size() ? "missing" : "garbage";
            std::string shape = n == 0 ? "empty-file" : tail ? "truncated-tail" : "well-formed";
            rec.violation("records:" + kind + ":" + shape,
                          vh::J().num("records_in_file", n).num("tail_bytes", tail).num("records_loaded", (long long)got.size()).str("file_hex", hexdump(bytes, 200)).done());
        }
        // contains: exactly the file keys
        std::set<uint64_t> keys;
        for (const Rec& r : rs) keys.insert(r.key);
        for (uint64_t k : keys)
            if (!book.contains(k)) rec.violation("contains:file-key-missing", vh::J().hex("key", k).num("records_in_file", n).done());
        for (int i = 0; i < 50; ++i)
        {
            uint64_t k = i < 9 ? pool[i] : rng.next();
            rec.evaluations++;
            if (!keys.count(k) && book.contains(k))
                rec.violation(std::string("contains:absent-key-present") + (n == 0 ? ":empty-file" : ""), vh::J().hex("key", k).num("records_in_file", n).num("tail_bytes", tail).done());
        }
        rec.nontrivial(vh::fnv(bytes));
        if (c < 2) rec.sample(vh::J().num("records", n).num("tail_bytes", tail).str("file_hex", hexdump(bytes, 64)).done());
    }
}

void check_lookup(orc::Rng& rng, long cases, long draws)
{
    for (long c = 0; c < cases; ++c)
    {
        // a real position with some of its legal moves as book moves
        Board b;
        int t = int(c % 4);
        if (t == 0) b = gen::synth(rng, gen::T_CASTLE);
        else if (t == 1) b = gen::synth(rng, gen::T_PROMO);
        else
        {
            b = Board::fen(gen::CORPUS[rng.below(gen::CORPUS_N)]);
            gen::Policy pol;
            gen::Game g = gen::random_game(rng, b, int(rng.below(30)), pol, "book");
            for (const orc::Move& m : g.moves) b = b.after(m);
        }
        bool backrank = (c % 8) == 7;
        if (backrank)
        {
            // a rook or queen (not the king) on e1/e8 of the side to move, sliding along the back rank to the a/c/g/h file:
            // these records look like castling records and must NOT be decoded as castling
            Board t = gen::synth(rng, gen::T_SPARSE);
            int hr = t.stm == orc::WHITE ? 0 : 7;
            int e = orc::sq_of(4, hr);
            if (orc::kind_of(t.sq[e]) == orc::KING) continue;
            for (int f = 0; f < 8; ++f)
                if (orc::kind_of(t.sq[orc::sq_of(f, hr)]) != orc::KING) t.sq[orc::sq_of(f, hr)] = orc::EMPTY;
            t.sq[e] = orc::make_pc(t.stm, rng.below(2) ? orc::ROOK : orc::QUEEN);
            t.castle = 0;
            t.ep = -1;
            if (!t.retro_legal()) continue;
            b = t;
        }
        std::vector<orc::Move> legal = b.legal();
        if (backrank)
        {
            int hr = b.stm == orc::WHITE ? 0 : 7;
            std::vector<orc::Move> br;
            for (const orc::Move& m : legal)
                if (m.from == orc::sq_of(4, hr) && orc::rank_of(m.to) == hr && (orc::file_of(m.to) == 0 || orc::file_of(m.to) == 2 || orc::file_of(m.to) == 6 || orc::file_of(m.to) == 7)) br.push_back(m);
            if (br.empty()) continue;
            legal = br;
            rec.count("book-move:non-king-from-e1/e8-along-back-rank");
        }
        if (legal.empty()) continue;
        // prefer special moves so that decoding is exercised
        std::stable_sort(legal.begin(), legal.end(), [&](const orc::Move& x, const orc::Move& y) {
            auto pri = [&](const orc::Move& m) { return b.is_castle(m) ? 0 : m.promo ? 1 : 2; };
            return pri(x) < pri(y);
        });
        int k = 1 + int(rng.below(4));
        if (k > int(legal.size())) k = int(legal.size());
        std::vector<orc::Move> ms;
        for (int i = 0; i < k; ++i) ms.push_back(i < 2 && rng.chance(0.7) ? legal[i] : legal[rng.below(uint32_t(legal.size()))]);
        std::sort(ms.begin(), ms.end());
        ms.erase(std::unique(ms.begin(), ms.end()), ms.end());
        k = int(ms.size());
        // weight vector: all of {0,1,2,3}^k in turn plus some large ones; never all zero
        std::vector<int> w(k);
        long code = c / 4;
        bool nonzero = false;
        for (int i = 0; i < k; ++i)
        {
            w[i] = int((code >> (2 * i)) & 3);
            if (rng.below(10) == 0) w[i] = rng.below(2) ? 65535 : 1000;
            nonzero |= w[i] > 0;
        }
        if (!nonzero) w[rng.below(k)] = 1;
        uint64_t key = orc::polyglot_key(b);
        std::vector<Rec> rs;
        // decoys under other keys before and after
        rs.push_back(Rec{key ^ 0x5555, pg_code(b, legal[0]), 9, 0});
        for (int i = 0; i < k; ++i) rs.push_back(Rec{key, pg_code(b, ms[i]), uint16_t(w[i]), 0});
        rs.push_back(Rec{key ^ 0x7777, pg_code(b, legal.back()), 9, 0});
        // book files are sorted by key
        std::stable_sort(rs.begin(), rs.end(), [](const Rec& x, const Rec& y) { return x.key < y.key; });
        std::string bytes = serialise(rs, 0, rng);
        std::string fen = b.fen();
        std::string wdesc;
        for (int i = 0; i < k; ++i) wdesc += (i ? "," : "") + ms[i].uci() + ":" + std::to_string(w[i]);
        vh::set_case_text("book lookup " + fen + " weights " + wdesc);
        std::string path = write_file(bytes, "lookup.bin");
        PolyglotBook book(path, size_t(rng.next()));
        Position P(fen);
        rec.evaluations++;
        // the engine's own key must find it (C18 covers key equality; here we pass the spec key)
        if (!book.contains(key))
        {
            rec.violation("contains:file-key-missing", vh::J().str("fen", fen).done());
            continue;
        }
        std::map<Move, int> expect;  // engine move -> index
        for (int i = 0; i < k; ++i) expect[glue::to_engine(ms[i], b)] = i;
        auto cls = [&](int i) { return b.is_castle(ms[i]) ? std::string("castling") : ms[i].promo ? std::string("promotion") : std::string("plain"); };
        for (int i = 0; i < k; ++i) rec.count("book-move:" + cls(i));
        // best
        Move best = book.get_best_move(key, P);
        int maxw = *std::max_element(w.begin(), w.end());
        auto it = expect.find(best);
        if (it == expect.end())
            rec.violation("decode:best-not-a-recorded-move", vh::J().str("fen", fen).str("weights", wdesc).str("engine_move", P.uci(best)).num("raw", best).done());
        else if (w[it->second] != maxw)
            rec.violation("best:not-maximal-weight", vh::J().str("fen", fen).str("weights", wdesc).str("engine_move", ms[it->second].uci()).done());
        // random policy
        std::vector<long> cnt(k, 0);
        long other = 0;
        for (long d = 0; d < draws; ++d)
        {
            Move m = book.get_random_move(key, P);
            auto jt = expect.find(m);
            if (jt == expect.end()) ++other;
            else cnt[jt->second]++;
        }
        rec.evaluations += draws;
        rec.count("weight-vectors-sampled");
        if (other) rec.violation("decode:random-not-a-recorded-move", vh::J().str("fen", fen).str("weights", wdesc).num("draws_outside", other).done());
        double sum = 0;
        for (int x : w) sum += x;
        std::string obs;
        for (int i = 0; i < k; ++i) obs += (i ? "," : "") + std::to_string(cnt[i]);
        for (int i = 0; i < k; ++i)
        {
            double p = w[i] / sum;
            double sd = std::sqrt(draws * p * (1 - p));
            if (w[i] == 0)
            {
                if (cnt[i] > 0) rec.violation("zero-weight-played", vh::J().str("fen", fen).str("weights", wdesc).str("counts", obs).num("draws", draws).done());
            }
            else if (std::fabs(cnt[i] - draws * p) > 7 * sd + 1)
            {
                std::string shape = k == 1 ? "single" : (maxw <= 3 ? "small-weights" : "large-weights");
                rec.violation("distribution:" + shape, vh::J().str("fen", fen).str("weights", wdesc).str("counts", obs).num("draws", draws).done());
                break;
            }
        }
        std::string wkey;
        for (int x : w) wkey += std::to_string(x) + ",";
        rec.nontrivial(vh::fnv(wkey + fen));
        if (c < 3) rec.sample(vh::J().str("fen", fen).str("weights", wdesc).str("counts", obs).num("draws", draws).done());
    }
}

}  // namespace

int main(int argc, char** argv)
{
    vh::Args args(argc, argv);
    vh::install_crash_handlers();
    orc::Rng rng(uint64_t(args.num("seed", 1)) * 2654435761ULL + 99);
    glue::init_engine();
    char tmpl[] = "/tmp/verif-book-XXXXXX";
    const char* d = mkdtemp(tmpl);
    if (!d)
    {
        fprintf(stderr, "VERIF-HARNESS cannot create temp dir\n");
        return 3;
    }
    TMP = d;
    check_load(rng, args.num("files", 100));
    check_lookup(rng, args.num("lookups", 60), args.num("draws", 50000));
    std::remove((TMP + "/load.bin").c_str());
    std::remove((TMP + "/lookup.bin").c_str());
    rmdir(TMP.c_str());
    rec.emit();
    return 0;
}
