// C11: attack tables vs geometric definitions (coordinate arithmetic only).
#include "common.h"
#include "chess.h"

#include "bitboard.h"
#include "move_bitboards.h"
#include "position.h"
#include "types.h"
#include "zobrist_hash.h"

using namespace engine;

// The move generator's own per-ray walkers (engine/movegen.cpp). They have external linkage but no header; declared weak so
// that the monitor still links (and simply skips this part) if a refactor makes them internal.
namespace engine
{
Bitboard attack_in_ray(Square sq, Ray ray, Bitboard blockers) __attribute__((weak));
Bitboard attack_in_line(Square sq, Ray ray, Bitboard blockers) __attribute__((weak));
}

namespace
{
vh::Recorder rec;

inline bool ok(int f, int r) { return f >= 0 && f < 8 && r >= 0 && r < 8; }
inline uint64_t bit(int f, int r) { return 1ULL << (r * 8 + f); }

uint64_t walk(int sq, int df, int dr, uint64_t occ)
{
    uint64_t a = 0;
    int f = (sq & 7) + df, r = (sq >> 3) + dr;
    while (ok(f, r))
    {
        a |= bit(f, r);
        if (occ & bit(f, r)) break;
        f += df;
        r += dr;
    }
    return a;
}
uint64_t ref_rook(int sq, uint64_t occ) { return walk(sq, 1, 0, occ) | walk(sq, -1, 0, occ) | walk(sq, 0, 1, occ) | walk(sq, 0, -1, occ); }
uint64_t ref_bishop(int sq, uint64_t occ) { return walk(sq, 1, 1, occ) | walk(sq, -1, 1, occ) | walk(sq, 1, -1, occ) | walk(sq, -1, -1, occ); }

// relevant blocker squares: every ray square except the last one of each ray
uint64_t relevant(int sq, bool rook)
{
    static const int RD[4][2] = {{1, 0}, {-1, 0}, {0, 1}, {0, -1}}, BD[4][2] = {{1, 1}, {-1, 1}, {1, -1}, {-1, -1}};
    uint64_t m = 0;
    for (int d = 0; d < 4; ++d)
    {
        int df = rook ? RD[d][0] : BD[d][0], dr = rook ? RD[d][1] : BD[d][1];
        int f = (sq & 7) + df, r = (sq >> 3) + dr;
        while (ok(f + df, r + dr))
        {
            m |= bit(f, r);
            f += df;
            r += dr;
        }
    }
    return m;
}

std::string hx(uint64_t v)
{
    char b[32];
    snprintf(b, sizeof b, "%016llx", (unsigned long long)v);
    return b;
}

void cmp_slider(int sq, uint64_t occ, const char* how)
{
    uint64_t rr = ref_rook(sq, occ), rb = ref_bishop(sq, occ);
    uint64_t er = slider_attack<ROOK>(Square(sq), occ), eb = slider_attack<BISHOP>(Square(sq), occ), eq = slider_attack<QUEEN>(Square(sq), occ);
    rec.evaluations += 3;
    if (er != rr) rec.violation(std::string("slider_attack:ROOK:") + orc::sq_name(sq), vh::J().str("square", orc::sq_name(sq)).str("occupancy", hx(occ)).str("engine", hx(er)).str("geometry", hx(rr)).str("how", how).done());
    if (eb != rb) rec.violation(std::string("slider_attack:BISHOP:") + orc::sq_name(sq), vh::J().str("square", orc::sq_name(sq)).str("occupancy", hx(occ)).str("engine", hx(eb)).str("geometry", hx(rb)).str("how", how).done());
    if (eq != (rr | rb)) rec.violation(std::string("slider_attack:QUEEN:") + orc::sq_name(sq), vh::J().str("square", orc::sq_name(sq)).str("occupancy", hx(occ)).str("engine", hx(eq)).str("geometry", hx(rr | rb)).str("how", how).done());
}

template <Direction D>
void cmp_shift(uint64_t bb, int df, int dr, const char* name)
{
    uint64_t ref = 0;
    for (int s = 0; s < 64; ++s)
        if (bb & (1ULL << s))
        {
            int f = (s & 7) + df, r = (s >> 3) + dr;
            if (ok(f, r)) ref |= bit(f, r);
        }
    rec.evaluations += 2;
    uint64_t a = shift<D>(bb), b = shift(bb, D);
    if (a != ref || b != ref) rec.violation(std::string("shift:") + name, vh::J().str("bb", hx(bb)).str("template", hx(a)).str("runtime", hx(b)).str("geometry", hx(ref)).done());
}

void all_shifts(uint64_t bb)
{
    cmp_shift<NORTH>(bb, 0, 1, "north");
    cmp_shift<SOUTH>(bb, 0, -1, "south");
    cmp_shift<EAST>(bb, 1, 0, "east");
    cmp_shift<WEST>(bb, -1, 0, "west");
    cmp_shift<NORTHEAST>(bb, 1, 1, "northeast");
    cmp_shift<NORTHWEST>(bb, -1, 1, "northwest");
    cmp_shift<SOUTHEAST>(bb, 1, -1, "southeast");
    cmp_shift<SOUTHWEST>(bb, -1, -1, "southwest");
    cmp_shift<DOUBLENORTH>(bb, 0, 2, "doublenorth");
    cmp_shift<DOUBLESOUTH>(bb, 0, -2, "doublesouth");
}

void cmp_sets(uint64_t bb)
{
    uint64_t pw = 0, pb = 0, k = 0;
    for (int s = 0; s < 64; ++s)
        if (bb & (1ULL << s))
        {
            int f = s & 7, r = s >> 3;
            for (int df = -1; df <= 1; df += 2)
            {
                if (ok(f + df, r + 1)) pw |= bit(f + df, r + 1);
                if (ok(f + df, r - 1)) pb |= bit(f + df, r - 1);
            }
            for (int df = -1; df <= 1; ++df)
                for (int dr = -1; dr <= 1; ++dr)
                    if ((df || dr) && ok(f + df, r + dr)) k |= bit(f + df, r + dr);
        }
    rec.evaluations += 5;
    if (pawn_attacks<WHITE>(bb) != pw || pawn_attacks(bb, WHITE) != pw) rec.violation("pawn_attacks:WHITE", vh::J().str("bb", hx(bb)).str("engine", hx(pawn_attacks<WHITE>(bb))).str("geometry", hx(pw)).done());
    if (pawn_attacks<BLACK>(bb) != pb || pawn_attacks(bb, BLACK) != pb) rec.violation("pawn_attacks:BLACK", vh::J().str("bb", hx(bb)).str("engine", hx(pawn_attacks<BLACK>(bb))).str("geometry", hx(pb)).done());
    if (king_attacks(bb) != k) rec.violation("king_attacks", vh::J().str("bb", hx(bb)).str("engine", hx(king_attacks(bb))).str("geometry", hx(k)).done());
}
}  // namespace

int main(int argc, char** argv)
{
    vh::Args args(argc, argv);
    vh::install_crash_handlers();
    int worker = int(args.num("worker", 0)), workers = int(args.num("workers", 1));
    long randoms = args.num("randoms", 100000);
    orc::Rng rng(uint64_t(args.num("seed", 1)) * 7919 + 13);
    move_bitboards::init();

    long subsets_r = 0, subsets_b = 0;
    for (int sq = worker; sq < 64; sq += workers)
    {
        vh::set_case_text("slider subsets of " + orc::sq_name(sq));
        for (int rook = 0; rook < 2; ++rook)
        {
            uint64_t m = relevant(sq, rook);
            uint64_t sub = 0;
            do
            {
                cmp_slider(sq, sub, "exact-subset");
                // the same with garbage outside the relevant mask (incl. the square itself and the edges)
                cmp_slider(sq, sub | (rng.next() & ~m), "subset+garbage");
                (rook ? subsets_r : subsets_b)++;
                sub = (sub - m) & m;
            } while (sub);
        }
        rec.nontrivial(uint64_t(sq));
    }
    rec.count("rook-subsets", subsets_r);
    rec.count("bishop-subsets", subsets_b);
    // random full occupancies, sparse and dense
    vh::set_case_text("random occupancies");
    for (long i = 0; i < randoms; ++i)
    {
        uint64_t occ = rng.next();
        int mode = int(i % 4);
        if (mode == 1) occ &= rng.next() & rng.next();
        if (mode == 2) occ |= rng.next() | rng.next();
        if (mode == 3) occ &= rng.next();
        cmp_slider(int(rng.below(64)), occ, "random-occupancy");
        if (i % 16 == 0)
        {
            all_shifts(occ);
            cmp_sets(occ);
        }
    }
    rec.count("random-occupancies", randoms);
    if (worker == 0)
    {
        vh::set_case_text("leaper and line tables");
        static const int KD[8][2] = {{1, 2}, {2, 1}, {2, -1}, {1, -2}, {-1, -2}, {-2, -1}, {-2, 1}, {-1, 2}};
        for (int s = 0; s < 64; ++s)
        {
            int f = s & 7, r = s >> 3;
            uint64_t kn = 0, kg = 0;
            for (auto& d : KD)
                if (ok(f + d[0], r + d[1])) kn |= bit(f + d[0], r + d[1]);
            for (int df = -1; df <= 1; ++df)
                for (int dr = -1; dr <= 1; ++dr)
                    if ((df || dr) && ok(f + df, r + dr)) kg |= bit(f + df, r + dr);
            rec.evaluations += 2;
            if (KNIGHT_MASK[s] != kn) rec.violation("KNIGHT_MASK:" + orc::sq_name(s), vh::J().str("square", orc::sq_name(s)).str("engine", hx(KNIGHT_MASK[s])).str("geometry", hx(kn)).done());
            if (KING_MASK[s] != kg) rec.violation("KING_MASK:" + orc::sq_name(s), vh::J().str("square", orc::sq_name(s)).str("engine", hx(KING_MASK[s])).str("geometry", hx(kg)).done());
            all_shifts(1ULL << s);
            cmp_sets(1ULL << s);
            // RAYS: order NW N NE E SE S SW W
            static const int RDIR[8][2] = {{-1, 1}, {0, 1}, {1, 1}, {1, 0}, {1, -1}, {0, -1}, {-1, -1}, {-1, 0}};
            for (int d = 0; d < 8; ++d)
            {
                uint64_t ref = walk(s, RDIR[d][0], RDIR[d][1], 0);
                rec.evaluations++;
                if (RAYS[d][s] != ref) rec.violation("RAYS:" + std::to_string(d), vh::J().str("square", orc::sq_name(s)).num("ray", d).str("engine", hx(RAYS[d][s])).str("geometry", hx(ref)).done());
            }
            for (int t = 0; t < 64; ++t)
            {
                int tf = t & 7, tr = t >> 3;
                int df = tf - f, dr = tr - r;
                bool aligned = (df == 0 || dr == 0 || std::abs(df) == std::abs(dr));
                uint64_t seg = 0, full = 0;
                if (aligned)
                {
                    int sf = (df > 0) - (df < 0), sr = (dr > 0) - (dr < 0);
                    int cf = f, cr = r;
                    seg = bit(cf, cr);
                    while (cf != tf || cr != tr)
                    {
                        cf += sf;
                        cr += sr;
                        seg |= bit(cf, cr);
                    }
                    if (s != t) full = bit(f, r) | walk(s, sf, sr, 0) | walk(s, -sf, -sr, 0);
                }
                rec.evaluations += 2;
                if (LINES[s][t] != seg) rec.violation("LINES", vh::J().str("from", orc::sq_name(s)).str("to", orc::sq_name(t)).str("engine", hx(LINES[s][t])).str("geometry", hx(seg)).done());
                if (FULL_LINES[s][t] != full) rec.violation("FULL_LINES", vh::J().str("from", orc::sq_name(s)).str("to", orc::sq_name(t)).str("engine", hx(FULL_LINES[s][t])).str("geometry", hx(full)).done());
            }
        }
        rec.count("leaper-line-table-entries", 64 * 2 + 64 * 8 + 64 * 64 * 2);
        // all 2^16 pawn sets on two adjacent ranks, for each rank pair
        vh::set_case_text("two-rank pawn sets");
        for (int r = 1; r < 6; r += 2)
            for (uint64_t v = 0; v < 65536; ++v) cmp_sets(v << (8 * r));
        rec.count("two-rank-pawn-sets", 3 * 65536);
    }
    if (engine::attack_in_ray && engine::attack_in_line)
    {
        vh::set_case_text("movegen ray walkers");
        static const int RDIR[8][2] = {{-1, 1}, {0, 1}, {1, 1}, {1, 0}, {1, -1}, {0, -1}, {-1, -1}, {-1, 0}};
        long n = 0;
        for (int sq = worker; sq < 64; sq += workers)
            for (int d = 0; d < 8; ++d)
            {
                // all subsets of the squares on this ray, plus random garbage elsewhere
                uint64_t raysq = walk(sq, RDIR[d][0], RDIR[d][1], 0);
                uint64_t sub = 0;
                do
                {
                    for (int g = 0; g < 2; ++g)
                    {
                        uint64_t occ = sub | (g ? (rng.next() & rng.next() & ~raysq) : 0);
                        uint64_t ref = walk(sq, RDIR[d][0], RDIR[d][1], occ);
                        uint64_t got = engine::attack_in_ray(Square(sq), Ray(d), occ);
                        ++n;
                        if (got != ref)
                            rec.violation("attack_in_ray:ray" + std::to_string(d), vh::J().str("square", orc::sq_name(sq)).num("ray", d).str("occupancy", hx(occ)).str("engine", hx(got)).str("geometry", hx(ref)).done());
                        if (d < 4)
                        {
                            uint64_t occ2 = occ | (rng.next() & rng.next());
                            uint64_t ref2 = walk(sq, RDIR[d][0], RDIR[d][1], occ2) | walk(sq, -RDIR[d][0], -RDIR[d][1], occ2);
                            uint64_t got2 = engine::attack_in_line(Square(sq), Ray(d), occ2);
                            ++n;
                            if (got2 != ref2)
                                rec.violation("attack_in_line:ray" + std::to_string(d), vh::J().str("square", orc::sq_name(sq)).num("ray", d).str("occupancy", hx(occ2)).str("engine", hx(got2)).str("geometry", hx(ref2)).done());
                        }
                    }
                    sub = (sub - raysq) & raysq;
                } while (sub);
            }
        rec.evaluations += n;
        rec.count("movegen-ray-walker-cases", n);
    }
    else if (worker == 0)
        rec.count("movegen-ray-walkers-not-linkable(skipped)");
    // The attack relation as the position code consumes it (whatever table or function it looks the set up in): one
    // attacker (pawn, knight, bishop, rook, queen; both colours; every square it can stand on) against the other side's king on
    // every square, nothing else on the board but the attacker's own king, then the same with one blocker on the line.
    // Position::is_in_check must equal the geometric relation.
    {
        vh::set_case_text("attack relation through Position::is_in_check");
        zobrist::init();
        static const int KJ[8][2] = {{1, 2}, {2, 1}, {-1, 2}, {-2, 1}, {1, -2}, {2, -1}, {-1, -2}, {-2, -1}};
        static const int KINDS[5] = {orc::PAWN, orc::KNIGHT, orc::BISHOP, orc::ROOK, orc::QUEEN};
        long n = 0, positive = 0;
        for (int a = worker; a < 64; a += workers)
            for (int ki = 0; ki < 5; ++ki)
                for (int ac = 0; ac < 2; ++ac)
                {
                    int kind = KINDS[ki];
                    int af = a & 7, ar = a >> 3;
                    if (kind == orc::PAWN && (ar == 0 || ar == 7)) continue;
                    for (int k = 0; k < 64; ++k)
                    {
                        if (k == a) continue;
                        int kf = k & 7, kr = k >> 3;
                        int df = kf - af, dr = kr - ar;
                        bool aligned_r = (df == 0 || dr == 0), aligned_b = std::abs(df) == std::abs(dr);
                        bool slider_line = (kind == orc::ROOK && aligned_r) || (kind == orc::BISHOP && aligned_b) || (kind == orc::QUEEN && (aligned_r || aligned_b));
                        uint64_t between = 0;
                        if (aligned_r || aligned_b)
                        {
                            int sf = (df > 0) - (df < 0), sr = (dr > 0) - (dr < 0);
                            for (int f = af + sf, r = ar + sr; f != kf || r != kr; f += sf, r += sr) between |= bit(f, r);
                        }
                        bool expect = false;
                        if (kind == orc::PAWN)
                        {
                            expect = std::abs(df) == 1 && dr == (ac == orc::WHITE ? 1 : -1);
                            // a pawn that never moved cannot be giving check in a reachable position: left out
                            if (expect && ar == (ac == orc::WHITE ? 1 : 6)) continue;
                        }
                        else if (kind == orc::KNIGHT)
                        {
                            for (auto& j : KJ)
                                if (df == j[0] && dr == j[1]) expect = true;
                        }
                        else expect = slider_line;
                        // the attacker's own king: away from the attacked king, off the line between the two
                        int ok_sq = -1;
                        for (int tries = 0; tries < 200 && ok_sq < 0; ++tries)
                        {
                            int c = int(rng.below(64));
                            if (c == a || c == k || (between >> c & 1)) continue;
                            if (std::abs((c & 7) - kf) <= 1 && std::abs((c >> 3) - kr) <= 1) continue;
                            ok_sq = c;
                        }
                        if (ok_sq < 0) continue;
                        for (int blocked = 0; blocked < 2; ++blocked)
                        {
                            if (blocked && !(slider_line && between)) break;
                            orc::Board b;
                            b.sq[a] = orc::make_pc(ac, kind);
                            b.sq[k] = orc::make_pc(1 - ac, orc::KING);
                            b.sq[ok_sq] = orc::make_pc(ac, orc::KING);
                            bool want = expect;
                            if (blocked)
                            {
                                // a knight of the attacked side somewhere on the line: it cannot check its own king
                                std::vector<int> bs;
                                for (int c = 0; c < 64; ++c)
                                    if (between >> c & 1) bs.push_back(c);
                                b.sq[bs[rng.below(uint32_t(bs.size()))]] = orc::make_pc(1 - ac, orc::KNIGHT);
                                want = false;
                                b.stm = ac;
                                if (b.in_check(ac)) continue;  // the blocker must not attack the other king (side not to move in check)
                            }
                            b.stm = 1 - ac;
                            b.castle = 0;
                            b.ep = -1;
                            Position P(b.fen());
                            bool got = P.is_in_check(P.color());
                            ++n;
                            positive += want;
                            if (got != want)
                                rec.violation(std::string("attack-relation:") + ".PNBRQK"[kind] + ":" + (ac == orc::WHITE ? "white" : "black") + (blocked ? ":blocked" : "") +
                                                  ":expected" + (want ? "1" : "0") + (kind == orc::PAWN ? std::string(":king-rank") + char('1' + kr) : ""),
                                              vh::J().str("fen", b.fen()).str("attacker", orc::sq_name(a)).str("king", orc::sq_name(k)).num("engine_in_check", got).num("geometry", want).done());
                        }
                    }
                }
        rec.evaluations += n;
        rec.count("attack-relation-cases", n);
        rec.count("attack-relation-cases:attacked", positive);
    }
    rec.sample(vh::J().str("square", "e4").str("occupancy", "0000001000100000").str("rook_attack", hx(slider_attack<ROOK>(SQ_E4, 0x0000001000100000ULL))).done());
    rec.emit();
    return 0;
}
