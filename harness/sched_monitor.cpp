// C06 (a): deterministic schedule enumeration. The whole Uci::loop() runs in this
// process on its own thread with fd 0/1 redirected to pipes; this thread plays
// the GUI. Through the H-SCHED hook the search thread is parked at a chosen
// point, `stop` is delivered and executed (STOP_DONE), the search is released,
// and the number of node visits until BEFORE_BESTMOVE is counted (logical
// promptness bound), together with the number of bestmove lines.
#include "common.h"
#include "gen.h"
#include "glue.h"

#include "uci.h"

#include <atomic>
#include <chrono>
#include <condition_variable>
#include <iostream>
#include <streambuf>
#include <functional>
#include <mutex>
#include <poll.h>
#include <thread>

using namespace engine;

namespace
{
vh::Recorder rec;
FILE* REPORT = nullptr;
int GUI_OUT = -1;  // write end: to the engine's stdin
int GUI_IN = -1;   // read end: from the engine's stdout

const long B = 50000;  // node visits allowed between release and BEFORE_BESTMOVE

struct Sched
{
    std::mutex m;
    std::condition_variable cv;
    int park_point = -1;
    long park_arg = -1;  // ITER_*: depth; NODE: k-th visit (NODE or QNODE)
    bool armed = false;
    bool parked = false, release = false;
    bool stop_done = false;
    long cmd_done = 0;
    std::atomic<long> visits{0};
    std::atomic<long> after_release{0};
    std::atomic<bool> released{false};
    std::atomic<long> before_bestmove{0}, after_bestmove{0};
    std::atomic<long> events[verif::POINT_NUM];
} S;

// std::cout of the engine goes through this buffer (installed by the harness, not engine code): one write() per line to
// fd 1, and - when armed - the thread that has just delivered a `bestmove` line is parked right AFTER the write returned,
// i.e. exactly in the window in which a GUI answers with its next commands.
struct LineBuf : std::streambuf
{
    std::string cur;
    int_type overflow(int_type ch) override
    {
        if (ch == traits_type::eof()) return ch;
        cur.push_back(char(ch));
        if (ch == '\n') flush_line();
        return ch;
    }
    std::streamsize xsputn(const char* p, std::streamsize n) override
    {
        for (std::streamsize i = 0; i < n; ++i) overflow(traits_type::to_int_type(p[i]));
        return n;
    }
    int sync() override { return 0; }
    void flush_line();
} g_linebuf;

bool g_stall_after_bestmove = false;  // guarded by S.m
bool g_stalled = false, g_stall_release = false;

// C20 through the real UCI front end: the time budget the search of the current `go` works with (hook argument b at the
// iteration boundaries and before bestmove). Written by the one search thread, read by the GUI thread after the answer.
std::atomic<long long> g_bmax{-1}, g_bmin{-1};
std::atomic<long> g_bobs{0};

void hook(verif::Point p, const verif::Ctx& c)
{
    S.events[p]++;
    if (p == verif::ITER_BEGIN || p == verif::ITER_END || p == verif::BEFORE_BESTMOVE)
    {
        long long b = c.b;
        if (g_bobs.fetch_add(1) == 0)
        {
            g_bmax = b;
            g_bmin = b;
        }
        else
        {
            if (b > g_bmax.load()) g_bmax = b;
            if (b < g_bmin.load()) g_bmin = b;
        }
    }
    long k = -1;
    if (p == verif::NODE || p == verif::QNODE)
    {
        k = ++S.visits;
        if (S.released.load()) ++S.after_release;
    }
    if (p == verif::BEFORE_BESTMOVE) S.before_bestmove++;
    if (p == verif::AFTER_BESTMOVE) S.after_bestmove++;
    if (p == verif::STOP_DONE || p == verif::UCI_CMD_DONE)
    {
        std::lock_guard<std::mutex> l(S.m);
        if (p == verif::STOP_DONE) S.stop_done = true;
        else S.cmd_done++;
        S.cv.notify_all();
        return;
    }
    bool match = false;
    {
        std::lock_guard<std::mutex> l(S.m);
        if (S.armed)
        {
            if (S.park_point == verif::NODE) match = (k >= 0 && k == S.park_arg);
            else if (p == S.park_point) match = (S.park_arg < 0 || c.a == S.park_arg);
        }
        if (match) S.armed = false;
    }
    if (match)
    {
        std::unique_lock<std::mutex> l(S.m);
        S.parked = true;
        S.cv.notify_all();
        S.cv.wait(l, [] { return S.release; });
        S.parked = false;
    }
}

void LineBuf::flush_line()
{
    (void)!write(1, cur.data(), cur.size());
    bool park = false;
    if (cur.rfind("bestmove", 0) == 0)
    {
        std::lock_guard<std::mutex> l(S.m);
        if (g_stall_after_bestmove)
        {
            g_stall_after_bestmove = false;
            park = true;
        }
    }
    cur.clear();
    if (park)
    {
        std::unique_lock<std::mutex> l(S.m);
        g_stalled = true;
        S.cv.notify_all();
        S.cv.wait(l, [] { return g_stall_release; });
        g_stalled = false;
    }
}

void gui_send(const std::string& line)
{
    std::string s = line + "\n";
    (void)!write(GUI_OUT, s.data(), s.size());
}

std::string inbuf;
// read one line from the engine with a timeout; false on timeout
bool gui_line(std::string& line, int timeout_ms)
{
    for (;;)
    {
        size_t nl = inbuf.find('\n');
        if (nl != std::string::npos)
        {
            line = inbuf.substr(0, nl);
            inbuf.erase(0, nl + 1);
            return true;
        }
        struct pollfd pf = {GUI_IN, POLLIN, 0};
        int r = poll(&pf, 1, timeout_ms);
        if (r <= 0) return false;
        char buf[4096];
        ssize_t n = read(GUI_IN, buf, sizeof buf);
        if (n <= 0) return false;
        inbuf.append(buf, size_t(n));
    }
}

struct Seen
{
    int bestmoves = 0;
    int readyok = 0;
    std::string last_bestmove;
};

// collect lines until pred or timeout
bool gui_until(Seen& seen, const std::function<bool(const std::string&)>& pred, int timeout_ms)
{
    auto end = std::chrono::steady_clock::now() + std::chrono::milliseconds(timeout_ms);
    for (;;)
    {
        int left = int(std::chrono::duration_cast<std::chrono::milliseconds>(end - std::chrono::steady_clock::now()).count());
        if (left <= 0) return false;
        std::string ln;
        if (!gui_line(ln, std::min(left, 50))) continue;
        if (ln.rfind("bestmove", 0) == 0)
        {
            seen.bestmoves++;
            seen.last_bestmove = ln;
        }
        if (ln == "readyok") seen.readyok++;
        if (pred(ln)) return true;
    }
}

bool wait_flag(const std::function<bool()>& f, int timeout_ms)
{
    std::unique_lock<std::mutex> l(S.m);
    return S.cv.wait_for(l, std::chrono::milliseconds(timeout_ms), f);
}

const char* POINT_NAME[] = {"UCI_CMD_READ", "UCI_CMD_DONE", "THREAD_START", "GO_ENTRY", "GO_INIT_DONE", "GO_RESET_DONE", "ITER_BEGIN", "ITER_END", "NODE", "QNODE",
                            "BEFORE_BESTMOVE", "AFTER_BESTMOVE", "STOP_ENTER", "STOP_DONE"};

struct Scenario
{
    std::string fen, go;
    int point;
    long arg;
    bool isready_while_parked;
    std::string name() const
    {
        std::string s = POINT_NAME[point];
        if (arg >= 0) s += "(" + std::string(point == verif::NODE ? (arg <= 200 ? "k<=200" : "k>200") : "d" + std::to_string(arg)) + ")";
        return s;
    }
};

bool sync_ready(Seen& seen)
{
    gui_send("isready");
    return gui_until(seen, [](const std::string& l) { return l == "readyok"; }, 60000);
}

// returns false if the engine can no longer be used
bool run_scenario(const Scenario& sc)
{
    Seen seen;
    std::string ex = vh::J().str("fen", sc.fen).str("go", sc.go).str("stop_delivered_while_search_thread_parked_at", sc.name()).num("arg", sc.arg).done();
    vh::set_case_text(sc.fen + " | " + sc.go + " | park at " + sc.name());
    {
        std::lock_guard<std::mutex> l(S.m);
        S.park_point = sc.point;
        S.park_arg = sc.arg;
        S.armed = true;
        S.parked = false;
        S.release = false;
        S.stop_done = false;
    }
    S.visits = 0;
    S.after_release = 0;
    S.released = false;
    S.before_bestmove = 0;
    S.after_bestmove = 0;
    gui_send("position fen " + sc.fen);
    gui_send(sc.go);
    rec.evaluations++;
    rec.count("scenarios");
    bool finite = sc.point == verif::BEFORE_BESTMOVE || sc.point == verif::AFTER_BESTMOVE;
    if (!wait_flag([] { return S.parked; }, 60000))
    {
        // the chosen point was not reached (e.g. an iteration that this position never gets to): not a verdict
        rec.count("point-not-reached:" + sc.name());
        {
            std::lock_guard<std::mutex> l(S.m);
            S.armed = false;
        }
        gui_send("stop");
        gui_until(seen, [](const std::string& l) { return l.rfind("bestmove", 0) == 0; }, 60000);
        return sync_ready(seen);
    }
    rec.count("parked:" + sc.name());
    if (sc.point == verif::AFTER_BESTMOVE)
        gui_until(seen, [](const std::string& l) { return l.rfind("bestmove", 0) == 0; }, 10000);
    if (sc.isready_while_parked)
    {
        // the search is demonstrably running (parked inside it, not inside an output section): isready must be answered now
        long before;
        {
            std::lock_guard<std::mutex> l(S.m);
            before = S.cmd_done;
        }
        gui_send("isready");
        bool done = wait_flag([before] { return S.cmd_done > before; }, 30000);
        bool got = gui_until(seen, [](const std::string& l) { return l == "readyok"; }, done ? 5000 : 100);
        rec.count("isready-while-search-parked");
        if (!got) rec.violation("no-readyok@" + sc.name(), ex);
    }
    gui_send("stop");
    if (!wait_flag([] { return S.stop_done; }, 30000))
    {
        rec.violation("stop-command-not-executed@" + sc.name(), ex);
    }
    S.released = true;
    {
        std::lock_guard<std::mutex> l(S.m);
        S.release = true;
        S.cv.notify_all();
    }
    // logical promptness: node visits after the release until the answer
    bool lost = false;
    auto t0 = std::chrono::steady_clock::now();
    auto last_progress = t0;
    long last_seen = S.after_release.load();
    for (;;)
    {
        if (seen.bestmoves > 0) break;
        if (gui_until(seen, [](const std::string& l) { return l.rfind("bestmove", 0) == 0; }, 20)) break;
        long now_visits = S.after_release.load();
        if (now_visits > B)
        {
            lost = true;
            break;
        }
        auto now = std::chrono::steady_clock::now();
        if (now_visits != last_seen)
        {
            last_seen = now_visits;
            last_progress = now;
        }
        if (now - t0 > std::chrono::seconds(90))
        {
            // wall-clock watchdog. It is a verdict only together with a logical witness: no answer AND not a single node
            // visit for the last 45 s (the search thread is neither finishing nor searching: it hangs). Otherwise the
            // machine is just slow: inconclusive.
            if (now - last_progress > std::chrono::seconds(45))
                rec.violation("hang-after-stop(no answer, no node visit for 45 s)@" + sc.name(), ex);
            else
                rec.count("inconclusive:watchdog-without-witness");
            return false;
        }
    }
    (void)finite;
    long visits = S.after_release.load();
    rec.count("max-visits-after-release", 0);
    if (visits > rec.counters["max-visits-after-release"]) rec.counters["max-visits-after-release"] = visits;
    if (lost)
    {
        rec.violation("lost-stop@" + sc.name(), vh::J().str("fen", sc.fen).str("go", sc.go).str("parked_at", sc.name()).num("node_visits_after_release", visits).num("bound", B).done());
        // recover: a second stop (the flag reset is behind us now)
        gui_send("stop");
        if (!gui_until(seen, [](const std::string& l) { return l.rfind("bestmove", 0) == 0; }, 60000)) return false;
    }
    else
        rec.count("stop-honoured:" + sc.name());
    if (!sync_ready(seen)) return false;
    // give a second bestmove the chance to show up: the search thread must have passed AFTER_BESTMOVE
    for (int i = 0; i < 200 && S.after_bestmove.load() == 0; ++i) std::this_thread::sleep_for(std::chrono::milliseconds(5));
    Seen tail;
    sync_ready(tail);
    seen.bestmoves += tail.bestmoves;
    if (seen.bestmoves != 1 && !lost)
        rec.violation(std::string(seen.bestmoves == 0 ? "no-bestmove@" : "second-bestmove@") + sc.name(), vh::J().str("fen", sc.fen).str("go", sc.go).str("parked_at", sc.name()).num("bestmove_lines", seen.bestmoves).done());
    rec.nontrivial(vh::fnv(sc.fen + sc.go + sc.name() + std::to_string(sc.arg)));
    if (rec.samples.size() < rec.max_samples)
        rec.sample(vh::J().str("fen", sc.fen).str("go", sc.go).str("parked_at", sc.name()).num("arg", sc.arg).num("node_visits_after_release", visits).str("answer", seen.last_bestmove).done());
    return true;
}

// (A) the next `position` + `go` of the session are executed while the previous search thread is still between the delivery
// of its bestmove line and its return: whatever it touches there must not belong to the Search object the new `go` replaced.
bool run_nextgo(const std::string& fen, const std::string& go1, const std::string& next_pos, const std::string& go2)
{
    Seen seen;
    vh::set_case_text(fen + " | " + go1 + " | next commands arrive right after the bestmove line was written");
    {
        std::lock_guard<std::mutex> l(S.m);
        S.armed = false;
        g_stall_after_bestmove = true;
        g_stalled = false;
        g_stall_release = false;
    }
    rec.evaluations++;
    rec.count("scenarios");
    gui_send("position fen " + fen);
    gui_send(go1);
    if (!wait_flag([] { return g_stalled; }, 90000))
    {
        rec.count("inconclusive:nextgo-never-stalled");
        std::lock_guard<std::mutex> l(S.m);
        g_stall_after_bestmove = false;
        return false;
    }
    // the answer is out: a GUI may now continue
    if (!gui_until(seen, [](const std::string& l) { return l.rfind("bestmove", 0) == 0; }, 10000)) rec.count("inconclusive:nextgo-bestmove-not-read");
    long before;
    {
        std::lock_guard<std::mutex> l(S.m);
        before = S.cmd_done;
    }
    gui_send(next_pos);
    gui_send(go2);
    bool done = wait_flag([before] { return S.cmd_done >= before + 2; }, 30000);
    if (!done) rec.count("inconclusive:nextgo-commands-not-executed");
    {
        std::lock_guard<std::mutex> l(S.m);
        g_stall_release = true;
        S.cv.notify_all();
    }
    bool ok = gui_until(seen, [](const std::string& l) { return l.rfind("bestmove", 0) == 0; }, 60000);
    if (!ok) rec.violation("no-bestmove@next-go-right-after-bestmove", vh::J().str("fen", fen).str("go", go1).str("then", next_pos + " ; " + go2).done());
    rec.count("next-go-while-previous-search-thread-is-returning");
    Seen tail;
    bool alive = sync_ready(tail);
    if (seen.bestmoves + tail.bestmoves != 2 && ok)
        rec.violation("bestmove-count@next-go-right-after-bestmove", vh::J().str("fen", fen).num("bestmove_lines", seen.bestmoves + tail.bestmoves).done());
    rec.nontrivial(vh::fnv("nextgo" + fen + go1 + go2));
    return alive;
}

// (B) a board-changing command while a search is running must not stop the reader thread from answering isready / stop
bool run_position_while_searching(const std::string& fen, long k, const std::string& cmd)
{
    Seen seen;
    std::string ex = vh::J().str("fen", fen).str("go", "go infinite").num("parked_at_node_visit", k).str("command_sent_while_searching", cmd).done();
    vh::set_case_text(fen + " | go infinite | " + cmd + " while the search is parked");
    {
        std::lock_guard<std::mutex> l(S.m);
        S.park_point = verif::NODE;
        S.park_arg = k;
        S.armed = true;
        S.parked = false;
        S.release = false;
        S.stop_done = false;
    }
    S.visits = 0;
    S.after_release = 0;
    S.released = false;
    rec.evaluations++;
    rec.count("scenarios");
    gui_send("position fen " + fen);
    gui_send("go infinite");
    if (!wait_flag([] { return S.parked; }, 60000))
    {
        rec.count("point-not-reached:position-while-searching");
        std::lock_guard<std::mutex> l(S.m);
        S.armed = false;
        gui_send("stop");
        return false;
    }
    gui_send(cmd);
    gui_send("isready");
    bool got = gui_until(seen, [](const std::string& l) { return l == "readyok"; }, 20000);
    rec.count("board-command-while-search-parked");
    if (!got) rec.violation("no-readyok@search-running-after-board-command", ex);
    gui_send("stop");
    bool stopped = wait_flag([] { return S.stop_done; }, got ? 20000 : 3000);
    if (!stopped) rec.violation("stop-command-not-executed@search-running-after-board-command", ex);
    S.released = true;
    {
        std::lock_guard<std::mutex> l(S.m);
        S.release = true;
        S.cv.notify_all();
    }
    if (!stopped) return false;  // the reader thread is stuck: nothing more to learn from this process
    bool ok = gui_until(seen, [](const std::string& l) { return l.rfind("bestmove", 0) == 0; }, 60000);
    if (!ok)
    {
        rec.violation("no-bestmove@search-running-after-board-command", ex);
        return false;
    }
    rec.nontrivial(vh::fnv("poswhile" + fen + cmd + std::to_string(k)));
    return sync_ready(seen);
}

// (C) `go infinite` on a root whose search ends on its own (mate found, single legal move): a stop delivered around / after
// that end must still be followed by exactly one bestmove
bool run_infinite_selfending(const std::string& fen, bool stop_first)
{
    Seen seen;
    std::string ex = vh::J().str("fen", fen).str("go", "go infinite").str("note", "the search ends on its own; stop delivered while the thread is about to answer / afterwards").done();
    vh::set_case_text(fen + " | go infinite on a self-ending root");
    {
        std::lock_guard<std::mutex> l(S.m);
        S.park_point = verif::BEFORE_BESTMOVE;
        S.park_arg = -1;
        S.armed = stop_first;
        S.parked = false;
        S.release = false;
        S.stop_done = false;
    }
    S.released = false;
    rec.evaluations++;
    rec.count("scenarios");
    rec.count("go-infinite-on-self-ending-root");
    gui_send("position fen " + fen);
    gui_send("go infinite");
    bool parked = stop_first && wait_flag([] { return S.parked; }, 15000);
    if (!stop_first) gui_until(seen, [](const std::string& l) { return l.rfind("bestmove", 0) == 0; }, 3000);  // it may answer before the stop: allowed
    gui_send("stop");
    wait_flag([] { return S.stop_done; }, 20000);
    {
        std::lock_guard<std::mutex> l(S.m);
        S.armed = false;
        S.release = true;
        S.cv.notify_all();
    }
    (void)parked;
    if (seen.bestmoves == 0 && !gui_until(seen, [](const std::string& l) { return l.rfind("bestmove", 0) == 0; }, 30000))
    {
        rec.violation("lost-stop@go-infinite-on-self-ending-root", ex);
        return false;
    }
    Seen tail;
    bool alive = sync_ready(tail);
    for (int i = 0; i < 100 && S.after_bestmove.load() == 0; ++i) std::this_thread::sleep_for(std::chrono::milliseconds(5));
    Seen tail2;
    sync_ready(tail2);
    if (seen.bestmoves + tail.bestmoves + tail2.bestmoves != 1)
        rec.violation("second-bestmove@go-infinite-on-self-ending-root", ex);
    rec.nontrivial(vh::fnv("selfend" + fen + (stop_first ? "1" : "0")));
    return alive;
}

// (D) C20 at the UCI boundary: a clock-governed `go` - written in various argument orders, with and without searchmoves, after
// earlier searches with other limits in the same session - must work with a budget within 0..70% of the MOVER's clock.
bool run_budget(const std::string& fen, bool white_to_move, const std::string& pre, const std::string& pre_name, const std::string& go_form, const std::string& form_name,
                int T, int other, int inc, const std::string& sm)
{
    Seen seen;
    auto subst = [&](std::string t) {
        auto rep = [&](const std::string& a, const std::string& b) {
            for (size_t i = t.find(a); i != std::string::npos; i = t.find(a, i + b.size())) t.replace(i, a.size(), b);
        };
        rep("@W", std::to_string(white_to_move ? T : other));
        rep("@B", std::to_string(white_to_move ? other : T));
        rep("@I", std::to_string(inc));
        rep("@SM", sm);
        return t;
    };
    std::string go = subst(go_form);
    vh::set_case_text(fen + " | " + pre + " | " + go);
    {
        std::lock_guard<std::mutex> l(S.m);
        S.armed = false;
    }
    rec.evaluations++;
    rec.count("uci-budget-scenarios");
    gui_send("position fen " + fen);
    if (pre == "ucinewgame")
    {
        gui_send("ucinewgame");
        gui_send("position fen " + fen);
    }
    else if (!pre.empty())
    {
        gui_send(subst(pre));
        if (pre.find("infinite") != std::string::npos)
        {
            std::this_thread::sleep_for(std::chrono::milliseconds(30));
            gui_send("stop");
        }
        if (!gui_until(seen, [](const std::string& l) { return l.rfind("bestmove", 0) == 0; }, 120000))
        {
            rec.count("inconclusive:budget-pre-search-unanswered");
            return false;
        }
        // let the previous search thread leave Search::go() before the recorder is reset
        for (int i = 0; i < 400 && S.after_bestmove.load() < S.before_bestmove.load(); ++i) std::this_thread::sleep_for(std::chrono::milliseconds(5));
    }
    Seen s0;
    if (!sync_ready(s0)) return false;
    g_bobs = 0;
    g_bmax = -1;
    g_bmin = -1;
    gui_send(go);
    bool answered = gui_until(seen, [](const std::string& l) { return l.rfind("bestmove", 0) == 0; }, 60000);
    if (!answered)
    {
        // a search that does not end within a minute on a clock of at most a few hundred ms: stop it, the budget values decide
        gui_send("stop");
        gui_until(seen, [](const std::string& l) { return l.rfind("bestmove", 0) == 0; }, 60000);
        rec.count("uci-budget:search-had-to-be-stopped");
    }
    for (int i = 0; i < 400 && S.after_bestmove.load() < S.before_bestmove.load(); ++i) std::this_thread::sleep_for(std::chrono::milliseconds(5));
    long obs = g_bobs.load();
    long long bmax = g_bmax.load(), bmin = g_bmin.load();
    rec.count("uci-budget-observations", obs);
    rec.count("uci-budget-go:" + form_name);
    rec.count("uci-budget-pre:" + pre_name);
    std::string ex = vh::J().str("fen", fen).str("before", pre.empty() ? "(nothing)" : subst(pre)).str("go", go).num("mover_clock_ms", T).num("budget_max", bmax).num("budget_min", bmin).num("observations", obs).done();
    if (obs == 0) rec.count("uci-budget:no-observation");
    else
    {
        if (bmax > 0) rec.count("uci-budget:positive");
        if (bmin < 0) rec.violation("uci-live-budget-negative:" + form_name + ":after-" + pre_name, ex);
        if (10 * bmax > 7LL * T) rec.violation("uci-live-budget-above-70%:" + form_name + ":after-" + pre_name, ex);
    }
    rec.nontrivial(vh::fnv("budget" + fen + pre + go));
    if (rec.samples.size() < rec.max_samples) rec.sample(ex);
    Seen tail;
    return sync_ready(tail);
}

}  // namespace

int main(int argc, char** argv)
{
    vh::Args args(argc, argv);
    vh::install_crash_handlers();
    orc::Rng rng(uint64_t(args.num("seed", 1)) * 0xC2B2AE3D27D4EB4FULL + 1);
    int worker = int(args.num("worker", 0)), workers = int(args.num("workers", 1));
    long extra_nodes = args.num("nodes", 20);
    // keep our own stdout for the report, then hand fd 0/1 to the engine
    int saved = dup(1);
    REPORT = fdopen(saved, "w");
    int to_engine[2], from_engine[2];
    if (pipe(to_engine) || pipe(from_engine)) return 3;
    dup2(to_engine[0], 0);
    dup2(from_engine[1], 1);
    GUI_OUT = to_engine[1];
    GUI_IN = from_engine[0];
    for (auto& e : S.events) e = 0;
    glue::init_engine();
    verif::g_callback.store(hook);
    std::cout.rdbuf(&g_linebuf);
    std::thread engine_thread([] {
        Uci uci;
        uci.loop();
    });
    Seen seen;
    gui_send("uci");
    if (!sync_ready(seen))
    {
        fprintf(stderr, "VERIF-HARNESS engine did not answer isready\n");
        _exit(3);
    }
    // scenario list
    static const char* ROOTS[] = {"rnbqkbnr/pppppppp/8/8/8/8/PPPPPPPP/RNBQKBNR w KQkq - 0 1",
                                  "r3k2r/p1ppqpb1/bn2pnp1/3PN3/1p2P3/2N2Q1p/PPPBBPPP/R3K2R w KQkq - 0 1",
                                  "r4rk1/1pp1qppp/p1np1n2/2b1p1B1/2B1P1b1/P1NP1N2/1PP1QPPP/R4RK1 w - - 0 10",
                                  "8/2p5/3p4/KP5r/1R3p1k/8/4P1P1/8 w - - 0 1",
                                  "2kr1bnr/pbpq4/2n1pp2/3p3p/3P1P1B/2N2N1Q/PPP3PP/2KR1B1R w - - 0 1",
                                  "r1bqk2r/pp2bppp/2p5/3pP3/P2Q1P2/2N1B3/1PP3PP/R4RK1 b kq - 0 1",
                                  "k7/8/1r1q1r1q/b1q1n1q1/1Q1N1Q1B/Q1R1Q1R1/8/7K w - - 0 1",
                                  // quiescence explosion (a single depth-1 iteration takes minutes): a stop must cut through it
                                  "q2k2q1/2nqn2b/1n1P1n1b/2rnr2Q/1NQ1QN1Q/3Q3B/2RQR2B/Q2K2Q1 w - - 0 1"};
    const int NROOTS = 8;
    static const char* GOS[] = {"go infinite", "go depth 30", "go movetime 10000000"};
    std::vector<Scenario> all;
    int id = 0;
    auto add = [&](int point, long arg, bool finite) {
        for (int r = 0; r < NROOTS; ++r)
            for (int g = 0; g < 3; ++g)
            {
                if ((r + g + point + arg) % 3 != 0 && point == verif::NODE && arg > 8) continue;  // thin the big NODE family out
                if (finite && r == NROOTS - 1) continue;
                if (r == NROOTS - 1 && ((point == verif::ITER_BEGIN && arg > 1) || point == verif::ITER_END)) continue;  // never reached there
                Scenario s;
                s.fen = ROOTS[r];
                s.go = finite ? (g == 0 ? "go depth 2" : g == 1 ? "go depth 3" : "go nodes 3000") : GOS[g];
                s.point = point;
                s.arg = arg;
                s.isready_while_parked = (id % 3 == 0) && point != verif::AFTER_BESTMOVE && point != verif::THREAD_START;
                if (id++ % workers == worker) all.push_back(s);
            }
    };
    add(verif::THREAD_START, -1, false);
    add(verif::GO_ENTRY, -1, false);
    add(verif::GO_INIT_DONE, -1, false);
    add(verif::GO_RESET_DONE, -1, false);
    for (int d = 1; d <= 6; ++d) add(verif::ITER_BEGIN, d, false);
    for (int d = 1; d <= 4; ++d) add(verif::ITER_END, d, false);
    for (long k = 1; k <= 200; ++k) add(verif::NODE, k, false);
    for (int e = 8; e <= 17; ++e) add(verif::NODE, 1L << e, false);
    for (long i = 0; i < extra_nodes; ++i) add(verif::NODE, long(201 + rng.below(60000)), false);
    add(verif::BEFORE_BESTMOVE, -1, true);
    add(verif::AFTER_BESTMOVE, -1, true);
    bool alive = true;
    bool only_nextgo = args.has("only-nextgo");
    if (args.has("only-budget"))
    {
        struct Root
        {
            const char* fen;
            bool white;
            const char* sm;
        };
        static const Root BR[] = {{"rnbqkbnr/pppppppp/8/8/8/8/PPPPPPPP/RNBQKBNR w KQkq - 0 1", true, "e2e4 d2d4"},
                                  {"r3k2r/p1ppqpb1/bn2pnp1/3PN3/1p2P3/2N2Q1p/PPPBBPPP/R3K2R w KQkq - 0 1", true, "e2a6 d5e6 e5f7"},
                                  {"r1bqk2r/pp2bppp/2p5/3pP3/P2Q1P2/2N1B3/1PP3PP/R4RK1 b kq - 0 1", false, "e8g8 c6c5"},
                                  {"r4rk1/1pp1qppp/p1np1n2/2b1p1B1/2B1P1b1/P1NP1N2/1PP1QPPP/R4RK1 w - - 0 10", true, "h2h3 c3d5"}};
        static const char* PRE[][2] = {{"", "nothing"},
                                       {"go movetime 400", "movetime-go"},
                                       {"go depth 3", "depth-go"},
                                       {"go nodes 4000", "nodes-go"},
                                       {"go infinite", "stopped-infinite-go"},
                                       {"go wtime 3000 btime 3000 movestogo 1", "larger-clock-go"},
                                       {"go depth 2 searchmoves @SM", "searchmoves-go"},
                                       {"ucinewgame", "ucinewgame"}};
        static const char* FORM[][2] = {{"go wtime @W btime @B", "clocks"},
                                        {"go btime @B wtime @W", "clocks-black-first"},
                                        {"go wtime @W btime @B winc @I binc @I", "clocks+inc"},
                                        {"go winc @I binc @I wtime @W btime @B", "inc-before-clocks"},
                                        {"go wtime @W btime @B movestogo 1", "clocks+movestogo1"},
                                        {"go movestogo 2 wtime @W btime @B", "movestogo-before-clocks"},
                                        {"go searchmoves @SM wtime @W btime @B", "searchmoves-before-clocks"},
                                        {"go wtime @W btime @B searchmoves @SM", "clocks-before-searchmoves"},
                                        {"go searchmoves @SM btime @B wtime @W movestogo 3", "searchmoves-before-clocks-black-first"}};
        static const int CLK[] = {40, 90, 150, 260};
        int id = 0;
        for (int r = 0; r < 4 && alive; ++r)
            for (int f = 0; f < 9 && alive; ++f)
                for (int pr = 0; pr < 8 && alive; ++pr)
                {
                    if (id++ % workers != worker) continue;
                    int T = CLK[rng.below(4)];
                    int other = rng.below(2) ? 20 * T : 1;  // the opponent's clock must not matter
                    int inc = rng.below(2) ? 0 : int(rng.below(2000));
                    alive = run_budget(BR[r].fen, BR[r].white, PRE[pr][0], PRE[pr][1], FORM[f][0], FORM[f][1], T, other, inc, BR[r].sm);
                }
        if (!alive) rec.count("engine-unusable-after-violation");
        for (int p = 0; p < verif::POINT_NUM; ++p) rec.count(std::string("events:") + POINT_NAME[p], S.events[p].load());
        rec.emit(REPORT);
        fflush(REPORT);
        if (alive)
        {
            gui_send("quit");
            engine_thread.join();
        }
        _exit(0);
    }
    if (!only_nextgo)
        for (const Scenario& sc : all)
        {
            if (!alive) break;
            alive = run_scenario(sc);
        }
    // the three extra families; each worker takes a slice
    {
        static const char* G1[] = {"go depth 1", "go depth 2", "go depth 2 searchmoves e2e4 d2d4", "go nodes 2000", "go movetime 20"};
        static const char* G2[] = {"go depth 1", "go depth 2", "go movetime 10"};
        int fam = 0;
        for (int g1 = 0; g1 < 5 && alive; ++g1)
            for (int g2 = 0; g2 < 3 && alive; ++g2)
                if (fam++ % workers == worker)
                    alive = run_nextgo(ROOTS[0], G1[g1], "position startpos moves e2e4", G2[g2]) && alive;
        if (!only_nextgo)
        {
            static const char* CMDS[] = {"position startpos", "position startpos moves e2e4 e7e5", "ucinewgame", "moves e2e4"};
            for (int r = 0; r < 3 && alive; ++r)
                for (int c = 0; c < 4 && alive; ++c)
                    if (fam++ % workers == worker && !(c == 3 && r != 0))  // `moves e2e4` is only legal from the start position
                        alive = run_position_while_searching(ROOTS[r], 500 + 977 * (r + c), CMDS[c]) && alive;
            static const char* SELF[] = {"6k1/5ppp/8/8/8/8/8/1RK5 w - - 0 1", "k7/8/1K6/8/8/8/8/7R b - - 0 1", "7k/5Q2/5K2/8/8/8/8/8 w - - 0 1",
                                         "r5k1/5ppp/8/8/8/8/1R6/1RK5 w - - 0 1"};
            for (int r = 0; r < 4 && alive; ++r)
                for (int sf = 0; sf < 2 && alive; ++sf)
                    if (fam++ % workers == worker)
                        alive = run_infinite_selfending(SELF[r], sf == 1) && alive;
        }
    }
    if (!alive) rec.count("engine-unusable-after-violation");
    for (int p = 0; p < verif::POINT_NUM; ++p) rec.count(std::string("events:") + POINT_NAME[p], S.events[p].load());
    rec.count("scenarios-planned", (long long)all.size());
    rec.emit(REPORT);
    fflush(REPORT);
    if (alive)
    {
        gui_send("quit");
        engine_thread.join();
    }
    _exit(0);
}
