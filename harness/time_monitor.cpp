// C20: TimeManager::calculateTime never negative, at most 70% of the clock, monotone in the clock.
#include "common.h"
#include "chess.h"

#include "time_manager.h"

using namespace engine;

namespace
{
vh::Recorder rec;

std::string regime(int inc, int mtg)
{
    return std::string(mtg == 0 ? "mtg=0" : mtg == 1 ? "mtg=1" : "mtg>1") + (inc == 0 ? ";inc=0" : ";inc>0");
}

long long call(int T, int inc, int mtg, int ply, Color side)
{
    Limits l;
    l.timeleft[side] = T;
    l.timeinc[side] = inc;
    // the other side's clock must not matter: fill with something hostile
    l.timeleft[!side] = 1;
    l.timeinc[!side] = 600000;
    l.movestogo = mtg;
    return (long long)TimeManager::calculateTime(l, side, ply);
}

void check_point(int T, int inc, int mtg, int ply, Color side)
{
    long long t = call(T, inc, mtg, ply, side);
    rec.evaluations++;
    auto exj = [&]() { return vh::J().num("time_ms", T).num("inc_ms", inc).num("movestogo", mtg).num("ply", ply).str("side", side == WHITE ? "white" : "black").num("allotted", t).done(); };
    if (t < 0) rec.violation("negative:" + regime(inc, mtg), exj());
    if (10 * t > 7LL * T) rec.violation("above-70%:" + regime(inc, mtg), exj());
}
}  // namespace

int main(int argc, char** argv)
{
    vh::Args args(argc, argv);
    vh::install_crash_handlers();
    int worker = int(args.num("worker", 0)), workers = int(args.num("workers", 1));
    long randoms = args.num("randoms", 100000), sweeps = args.num("sweeps", 1000);
    orc::Rng rng(uint64_t(args.num("seed", 1)) * 104729 + 7);
    const int DAY = 24 * 3600 * 1000;
    std::vector<int> Ts;
    for (int t = 0; t <= 100; ++t) Ts.push_back(t);
    for (int p = 7; p < 27; ++p)
    {
        Ts.push_back((1 << p) - 1);
        Ts.push_back(1 << p);
        Ts.push_back((1 << p) + 1);
    }
    for (int k = 1; k <= 60; ++k) Ts.push_back(k * 1000);
    for (int k : {90, 120, 300, 600, 900, 1800, 3600, 7200}) Ts.push_back(k * 1000);
    Ts.push_back(DAY - 1);
    Ts.push_back(DAY);
    std::vector<int> incs = {0, 1, 10, 100, 1000, 10000, 60000, 600000};
    std::vector<int> mtgs;
    for (int m = 0; m <= 51; ++m) mtgs.push_back(m);
    for (int m : {52, 60, 100, 150, 199, 200}) mtgs.push_back(m);
    std::vector<int> plies;
    for (int p = 0; p <= 140; p += 1) plies.push_back(p);
    for (int p : {141, 200, 300, 500, 799, 1000}) plies.push_back(p);
    // grid, split over workers by T index
    vh::set_case_text("grid");
    for (size_t ti = worker; ti < Ts.size(); ti += workers)
        for (int inc : incs)
            for (int mtg : mtgs)
                for (size_t pi = 0; pi < plies.size(); pi += (mtg > 12 && mtg < 48 ? 7 : 1))
                {
                    check_point(Ts[ti], inc, mtg, plies[pi], (ti + pi) & 1 ? WHITE : BLACK);
                    if (Ts[ti] == 0 || Ts[ti] == 1 || Ts[ti] == DAY) check_point(Ts[ti], inc, mtg, plies[pi], (ti + pi) & 1 ? BLACK : WHITE);
                }
    rec.count("grid-points", rec.evaluations);
    // random tuples
    vh::set_case_text("random tuples");
    for (long i = 0; i < randoms; ++i)
    {
        int T = rng.chance(0.3) ? int(rng.below(2000)) : int(rng.below(DAY + 1));
        int inc = rng.chance(0.3) ? 0 : int(rng.below(600001));
        int mtg = rng.chance(0.3) ? 0 : int(rng.below(201));
        int ply = rng.chance(0.7) ? int(rng.below(200)) : int(rng.below(1001));
        check_point(T, inc, mtg, ply, rng.below(2) ? WHITE : BLACK);
        if (i < 3) rec.sample(vh::J().num("time_ms", T).num("inc_ms", inc).num("movestogo", mtg).num("ply", ply).num("allotted", call(T, inc, mtg, ply, WHITE)).done());
        rec.nontrivial((uint64_t(T) << 32) ^ (uint64_t(inc) << 12) ^ (uint64_t(mtg) << 4) ^ uint64_t(ply) * 0x9E3779B97F4A7C15ULL);
    }
    rec.count("random-tuples", randoms);
    // monotone sweeps
    vh::set_case_text("monotone sweeps");
    long steps = 0;
    for (long i = 0; i < sweeps; ++i)
    {
        int inc = rng.chance(0.3) ? 0 : int(rng.below(rng.chance(0.5) ? 3000 : 600001));
        int mtg = rng.chance(0.3) ? 0 : int(rng.below(201));
        int ply = rng.chance(0.7) ? int(rng.below(200)) : int(rng.below(1001));
        Color side = rng.below(2) ? WHITE : BLACK;
        int T = rng.chance(0.5) ? 0 : int(rng.below(100000));
        long long prev = call(T, inc, mtg, ply, side);
        int prevT = T;
        for (int k = 0; k < 200; ++k)
        {
            int step = k < 80 ? 1 : int(1 + rng.below(k < 150 ? 50 : 500000));
            if (T > DAY - step) break;
            T += step;
            long long t = call(T, inc, mtg, ply, side);
            rec.evaluations++;
            ++steps;
            if (t < prev)
                rec.violation("non-monotone:" + regime(inc, mtg),
                              vh::J().num("inc_ms", inc).num("movestogo", mtg).num("ply", ply).str("side", side == WHITE ? "white" : "black").num("T1", prevT).num("t1", prev).num("T2", T).num("t2", t).done());
            prev = t;
            prevT = T;
        }
    }
    rec.count("monotone-steps", steps);
    rec.emit();
    return 0;
}
