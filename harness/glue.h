// Conversions between the engine's API types and the oracle's. Moves cross the
// boundary as (from,to,promotion) triples, positions as FEN strings.
#ifndef VERIF_HARNESS_GLUE_H
#define VERIF_HARNESS_GLUE_H

#include "chess.h"
#include "common.h"

#include "endgame.h"
#include "movegen.h"
#include "position.h"
#include "types.h"
#include "zobrist_hash.h"

#include <algorithm>

namespace glue
{
inline void init_engine()
{
    engine::move_bitboards::init();
    engine::zobrist::init();
    engine::bitbase::init();
    engine::endgame::init();
}

// decode an engine move through the engine's public accessors
inline orc::Move to_orc(engine::Move m, engine::Color stm)
{
    orc::Move o;
    engine::Castling c = engine::castling(m);
    if (c != engine::NO_CASTLING)
    {
        o.from = stm == engine::WHITE ? 4 : 60;
        o.to = (c == engine::KING_CASTLING) ? o.from + 2 : o.from - 2;
        o.promo = 0;
        return o;
    }
    o.from = int(engine::from(m));
    o.to = int(engine::to(m));
    o.promo = int(engine::promotion(m));  // engine kinds: KNIGHT=2..QUEEN=5, same numbering as the oracle
    return o;
}

// build the engine encoding of an oracle move (independent of parse_uci)
inline engine::Move to_engine(const orc::Move& m, const orc::Board& b)
{
    if (b.is_castle(m))
        return engine::create_castling(orc::file_of(m.to) == 6 ? engine::KING_CASTLING : engine::QUEEN_CASTLING);
    return engine::create_promotion(engine::Square(m.from), engine::Square(m.to), engine::PieceKind(m.promo));
}

struct MoveListResult
{
    std::vector<orc::Move> moves;     // decoded, sorted
    std::vector<engine::Move> raw;    // as generated
    bool overflow = false;
};

inline MoveListResult engine_moves(const engine::Position& p)
{
    static engine::Move buf[2048];
    MoveListResult r;
    engine::Move* end = engine::generate_moves(p, p.color(), buf);
    size_t n = size_t(end - buf);
    if (n > 2000) r.overflow = true;
    r.raw.assign(buf, buf + std::min<size_t>(n, 2000));
    for (engine::Move m : r.raw) r.moves.push_back(to_orc(m, p.color()));
    std::sort(r.moves.begin(), r.moves.end());
    return r;
}

inline std::string moves_str(const std::vector<orc::Move>& v)
{
    std::string s;
    for (const orc::Move& m : v)
    {
        if (!s.empty()) s += ' ';
        s += m.uci();
    }
    return s;
}

// pin classification of the piece on `from` (oracle facts only) for finding keys
inline std::string pin_class(const orc::Board& b, const orc::Move& m)
{
    int k = b.king_sq(b.stm);
    if (k < 0 || m.from == k) return "pin-none";
    int df = orc::file_of(m.from) - orc::file_of(k), dr = orc::rank_of(m.from) - orc::rank_of(k);
    if (!(df == 0 || dr == 0 || std::abs(df) == std::abs(dr))) return "pin-none";
    orc::Board t = b;
    t.sq[m.from] = orc::EMPTY;
    if (b.in_check(b.stm) || !t.in_check(b.stm)) return "pin-none";
    std::string line = df == 0 ? "file" : dr == 0 ? "rank" : "diag";
    int tf = orc::file_of(m.to) - orc::file_of(k), tr = orc::rank_of(m.to) - orc::rank_of(k);
    bool along = (df == 0 && tf == 0) || (dr == 0 && tr == 0) ||
                 (df != 0 && dr != 0 && std::abs(tf) == std::abs(tr) && (tf > 0) == (df > 0) && (tr > 0) == (dr > 0));
    return "pin-" + line + (along ? "-along" : "-off");
}

inline std::string move_context(const orc::Board& b, const orc::Move& m)
{
    std::string s = "chk" + std::to_string(std::min(b.checkers(b.stm), 2)) + ":" + pin_class(b, m);
    if (b.is_ep(m))
    {
        // does removing both pawns from the rank expose the king along the rank?
        orc::Board t = b;
        int victim = orc::sq_of(orc::file_of(m.to), orc::rank_of(m.from));
        t.sq[victim] = orc::EMPTY;
        t.sq[m.from] = orc::EMPTY;
        int k = b.king_sq(b.stm);
        if (k >= 0 && orc::rank_of(k) == orc::rank_of(m.from) && !b.in_check(b.stm) && t.in_check(b.stm)) s += ":ep-rank-exposed";
        orc::Board t2 = b;
        t2.sq[victim] = orc::EMPTY;
        if (k >= 0 && orc::rank_of(k) != orc::rank_of(m.from) && !b.in_check(b.stm) && t2.in_check(b.stm)) s += ":ep-victim-pinned";
    }
    return s;
}

}  // namespace glue

#endif
