#include "kpk.h"

#include <cstdio>
#include <cstdlib>

namespace orc
{
namespace
{
constexpr uint32_t SINK_DRAW = 0xFFFFFFFFu, SINK_WIN = 0xFFFFFFFEu;

struct ClassSolve
{
    int kind;  // PAWN, QUEEN, ROOK (white piece besides the king)
    std::vector<uint8_t> legal, win;
    std::vector<uint32_t> succ_start, succ;
    long n_legal = 0, n_win = 0, rounds = 0;
};

Board make_board(int kind, int stm, int wk, int ps, int bk)
{
    Board b;
    b.sq[wk] = WK;
    b.sq[bk] = BK;
    b.sq[ps] = make_pc(WHITE, kind);
    b.stm = stm;
    return b;
}

bool state_legal(int kind, int stm, int wk, int ps, int bk)
{
    if (wk == bk || wk == ps || bk == ps) return false;
    if (std::abs(file_of(wk) - file_of(bk)) <= 1 && std::abs(rank_of(wk) - rank_of(bk)) <= 1) return false;
    if (kind == PAWN && (rank_of(ps) == 0 || rank_of(ps) == 7)) return false;
    Board b = make_board(kind, stm, wk, ps, bk);
    if (b.in_check(1 - stm)) return false;
    return true;
}

// solve one material class; `q` and `r` are the already solved promotion classes (may be null)
void solve(ClassSolve& c, const ClassSolve* q, const ClassSolve* r)
{
    const size_t N = 2 * 64 * 64 * 64;
    c.legal.assign(N, 0);
    c.win.assign(N, 0);
    c.succ_start.assign(N + 1, 0);
    c.succ.clear();
    for (int stm = 0; stm < 2; ++stm)
        for (int wk = 0; wk < 64; ++wk)
            for (int ps = 0; ps < 64; ++ps)
                for (int bk = 0; bk < 64; ++bk)
                {
                    size_t i = KpkTruth::idx(stm, wk, ps, bk);
                    c.succ_start[i] = uint32_t(c.succ.size());
                    if (!state_legal(c.kind, stm, wk, ps, bk)) continue;
                    c.legal[i] = 1;
                    c.n_legal++;
                    Board b = make_board(c.kind, stm, wk, ps, bk);
                    std::vector<Move> ms = b.legal();
                    if (ms.empty())
                    {
                        // black mated = win; any stalemate = draw (marked by a single draw sink)
                        if (stm == BLACK && b.in_check(BLACK))
                            c.win[i] = 1;
                        else
                            c.succ.push_back(SINK_DRAW);
                        continue;
                    }
                    for (const Move& m : ms)
                    {
                        Board n = b.after(m);
                        int nwk = n.king_sq(WHITE), nbk = n.king_sq(BLACK);
                        int nps = -1, npk = 0;
                        for (int s = 0; s < 64; ++s)
                            if (n.sq[s] != EMPTY && n.sq[s] != WK && n.sq[s] != BK)
                            {
                                nps = s;
                                npk = kind_of(n.sq[s]);
                            }
                        if (nps < 0)
                            c.succ.push_back(SINK_DRAW);  // piece captured: K v K
                        else if (npk == c.kind)
                            c.succ.push_back(uint32_t(KpkTruth::idx(n.stm, nwk, nps, nbk)));
                        else if (npk == QUEEN && q)
                            c.succ.push_back(q->win[KpkTruth::idx(n.stm, nwk, nps, nbk)] ? SINK_WIN : SINK_DRAW);
                        else if (npk == ROOK && r)
                            c.succ.push_back(r->win[KpkTruth::idx(n.stm, nwk, nps, nbk)] ? SINK_WIN : SINK_DRAW);
                        else
                            c.succ.push_back(SINK_DRAW);  // bishop / knight: insufficient material
                    }
                }
    c.succ_start[N] = uint32_t(c.succ.size());
    auto val = [&](uint32_t s) -> bool { return s == SINK_WIN ? true : s == SINK_DRAW ? false : c.win[s] != 0; };
    bool changed = true;
    while (changed)
    {
        changed = false;
        c.rounds++;
        for (size_t i = 0; i < N; ++i)
        {
            if (!c.legal[i] || c.win[i]) continue;
            uint32_t a = c.succ_start[i], e = c.succ_start[i + 1];
            if (a == e) continue;
            bool white = i < N / 2;  // stm == WHITE
            bool w;
            if (white)
            {
                w = false;
                for (uint32_t k = a; k < e && !w; ++k) w = val(c.succ[k]);
            }
            else
            {
                w = true;
                for (uint32_t k = a; k < e && w; ++k) w = val(c.succ[k]);
            }
            if (w)
            {
                c.win[i] = 1;
                changed = true;
            }
        }
    }
    for (size_t i = 0; i < N; ++i) c.n_win += c.win[i];
}

ClassSolve* g_p = nullptr;
}  // namespace

const KpkTruth& KpkTruth::get()
{
    static KpkTruth* t = nullptr;
    if (t) return *t;
    ClassSolve* q = new ClassSolve{QUEEN};
    ClassSolve* r = new ClassSolve{ROOK};
    ClassSolve* p = new ClassSolve{PAWN};
    solve(*q, nullptr, nullptr);
    solve(*r, nullptr, nullptr);
    solve(*p, q, r);
    t = new KpkTruth;
    t->legal_ = p->legal;
    t->win_ = p->win;
    t->n_legal = p->n_legal;
    t->n_win = p->n_win;
    t->rounds = p->rounds;
    t->q_legal = q->n_legal;
    t->q_win = q->n_win;
    t->r_legal = r->n_legal;
    t->r_win = r->n_win;
    g_p = p;
    delete q;
    delete r;
    return *t;
}

bool KpkTruth::strong_wins(const Board& b0) const
{
    Board b = b0;
    if (b.count(BP) == 1) b = b0.mirrored();
    int wp = -1;
    for (int s = 0; s < 64; ++s)
        if (b.sq[s] == WP) wp = s;
    return white_wins(b.stm, b.king_sq(WHITE), wp, b.king_sq(BLACK));
}

bool KpkTruth::fixed_point_ok(std::string* why) const
{
    // every WIN (white to move) has a move into a WIN; every DRAW (white to move) has none;
    // every WIN (black to move) has only moves into WIN; every DRAW (black to move) has a move into non-WIN or is stalemate
    const ClassSolve& c = *g_p;
    const size_t N = 2 * 64 * 64 * 64;
    auto val = [&](uint32_t s) -> bool { return s == SINK_WIN ? true : s == SINK_DRAW ? false : c.win[s] != 0; };
    for (size_t i = 0; i < N; ++i)
    {
        if (!c.legal[i]) continue;
        uint32_t a = c.succ_start[i], e = c.succ_start[i + 1];
        bool white = i < N / 2;
        bool any = false, all = true;
        for (uint32_t k = a; k < e; ++k)
        {
            bool v = val(c.succ[k]);
            any |= v;
            all &= v;
        }
        bool expect = a == e ? bool(c.win[i]) : white ? any : all;
        if (expect != bool(c.win[i]))
        {
            if (why) *why = "state " + std::to_string(i);
            return false;
        }
    }
    return true;
}
}  // namespace orc
