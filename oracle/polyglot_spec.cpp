#include "polyglot_spec.h"
namespace orc
{
const uint64_t RANDOM64[781] = {
#include "polyglot_random64.inc"
};

// "kind_of_piece": black pawn 0, white pawn 1, black knight 2, ... white king 11
static int spec_kind(int pc)
{
    int k = kind_of(pc) - 1;           // pawn 0 .. king 5
    return 2 * k + (color_of(pc) == WHITE ? 1 : 0);
}

uint64_t polyglot_piece_part(const Board& b)
{
    uint64_t key = 0;
    for (int s = 0; s < 64; ++s)
        if (b.sq[s] != EMPTY) key ^= RANDOM64[64 * spec_kind(b.sq[s]) + 8 * rank_of(s) + file_of(s)];
    return key;
}

uint64_t polyglot_castle_part(const Board& b)
{
    uint64_t key = 0;
    if (b.castle & CK) key ^= RANDOM64[768 + 0];
    if (b.castle & CQ) key ^= RANDOM64[768 + 1];
    if (b.castle & Ck) key ^= RANDOM64[768 + 2];
    if (b.castle & Cq) key ^= RANDOM64[768 + 3];
    return key;
}

uint64_t polyglot_ep_part(const Board& b)
{
    // only if a pawn of the side to move stands next to the pawn that just advanced two squares
    if (b.ep < 0) return 0;
    int f = file_of(b.ep);
    int r = b.stm == WHITE ? 4 : 3;  // rank of the pushed pawn (0-based): white captures from rank 5
    int mine = make_pc(b.stm, PAWN);
    bool adj = false;
    if (f > 0 && b.sq[sq_of(f - 1, r)] == mine) adj = true;
    if (f < 7 && b.sq[sq_of(f + 1, r)] == mine) adj = true;
    return adj ? RANDOM64[772 + f] : 0;
}

uint64_t polyglot_turn_part(const Board& b)
{
    return b.stm == WHITE ? RANDOM64[780] : 0;
}

uint64_t polyglot_key(const Board& b)
{
    return polyglot_piece_part(b) ^ polyglot_castle_part(b) ^ polyglot_ep_part(b) ^ polyglot_turn_part(b);
}
}  // namespace orc
