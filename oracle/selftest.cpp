// Self-test of the trusted base. Uses only facts that do not come from the
// engine under test: published perft counts (the same numbers the repository's
// tests/run_perft_tests.sh lists), the nine official Polyglot key vectors,
// textbook K+P v K results, and internal consistency properties.
#include "chess.h"
#include "kpk.h"
#include "polyglot_spec.h"

#include <chrono>
#include <cstdio>
#include <cstring>
#include <set>

using namespace orc;

static int failures = 0;
#define CHECK(cond, ...)                      \
    do                                        \
    {                                         \
        if (!(cond))                          \
        {                                     \
            ++failures;                       \
            fprintf(stderr, "SELFTEST FAIL: "); \
            fprintf(stderr, __VA_ARGS__);     \
            fprintf(stderr, "\n");            \
        }                                     \
    } while (0)

struct PerftCase
{
    const char* fen;
    int depth;
    uint64_t nodes;
};

static const PerftCase PERFT[] = {
    {"rnbqkbnr/pppppppp/8/8/8/8/PPPPPPPP/RNBQKBNR w KQkq - 0 1", 4, 197281},
    {"r3k2r/p1ppqpb1/bn2pnp1/3PN3/1p2P3/2N2Q1p/PPPBBPPP/R3K2R w KQkq - 0 1", 3, 97862},
    {"8/2p5/3p4/KP5r/1R3p1k/8/4P1P1/8 w - - 0 1", 5, 674624},
    {"r3k2r/Pppp1ppp/1b3nbN/nP6/BBP1P3/q4N2/Pp1P2PP/R2Q1RK1 w kq - 0 1", 4, 422333},
    {"r2q1rk1/pP1p2pp/Q4n2/bbp1p3/Np6/1B3NBn/pPPP1PPP/R3K2R b KQ - 0 1", 4, 422333},
    {"rnbq1k1r/pp1Pbppp/2p5/8/2B5/8/PPP1NnPP/RNBQK2R w KQ - 1 8", 3, 62379},
    {"r4rk1/1pp1qppp/p1np1n2/2b1p1B1/2B1P1b1/P1NP1N2/1PP1QPPP/R4RK1 w - - 0 10", 3, 89890},
    {"r6r/1b2k1bq/8/8/7B/8/8/R3K2R b KQ - 3 2", 1, 8},
    {"8/8/8/2k5/2pP4/8/B7/4K3 b - d3 0 3", 1, 8},
    {"r1bqkbnr/pppppppp/n7/8/8/P7/1PPPPPPP/RNBQKBNR w KQkq - 2 2", 1, 19},
    {"r3k2r/p1pp1pb1/bn2Qnp1/2qPN3/1p2P3/2N5/PPPBBPPP/R3K2R b KQkq - 3 2", 1, 5},
    {"2kr3r/p1ppqpb1/bn2Qnp1/3PN3/1p2P3/2N5/PPPBBPPP/R3K2R b KQ - 3 2", 1, 44},
    {"rnb2k1r/pp1Pbppp/2p5/q7/2B5/8/PPPQNnPP/RNB1K2R w KQ - 3 9", 1, 39},
    {"2r5/3pk3/8/2P5/8/2K5/8/8 w - - 5 4", 1, 9},
    {"3k4/3p4/8/K1P4r/8/8/8/8 b - - 0 1", 6, 1134888},
    {"8/8/4k3/8/2p5/8/B2P2K1/8 w - - 0 1", 6, 1015133},
    {"8/8/1k6/2b5/2pP4/8/5K2/8 b - d3 0 1", 6, 1440467},
    {"5k2/8/8/8/8/8/8/4K2R w K - 0 1", 6, 661072},
    {"3k4/8/8/8/8/8/8/R3K3 w Q - 0 1", 6, 803711},
    {"r3k2r/1b4bq/8/8/8/8/7B/R3K2R w KQkq - 0 1", 4, 1274206},
    {"r3k2r/8/3Q4/8/8/5q2/8/R3K2R b KQkq - 0 1", 4, 1720476},
    {"2K2r2/4P3/8/8/8/8/8/3k4 w - - 0 1", 6, 3821001},
    {"8/8/1P2K3/8/2n5/1q6/8/5k2 b - - 0 1", 5, 1004658},
    {"4k3/1P6/8/8/8/8/K7/8 w - - 0 1", 6, 217342},
    {"8/P1k5/K7/8/8/8/8/8 w - - 0 1", 6, 92683},
    {"K1k5/8/P7/8/8/8/8/8 w - - 0 1", 6, 2217},
    {"8/k1P5/8/1K6/8/8/8/8 w - - 0 1", 7, 567584},
    {"8/8/2k5/5q2/5n2/8/5K2/8 b - - 0 1", 4, 23527},
};
// deep counts, only with --full
static const PerftCase PERFT_FULL[] = {
    {"rnbqkbnr/pppppppp/8/8/8/8/PPPPPPPP/RNBQKBNR w KQkq - 0 1", 5, 4865609},
    {"r3k2r/p1ppqpb1/bn2pnp1/3PN3/1p2P3/2N2Q1p/PPPBBPPP/R3K2R w KQkq - 0 1", 4, 4085603},
    {"rnbq1k1r/pp1Pbppp/2p5/8/2B5/8/PPP1NnPP/RNBQK2R w KQ - 1 8", 4, 2103487},
    {"r4rk1/1pp1qppp/p1np1n2/2b1p1B1/2B1P1b1/P1NP1N2/1PP1QPPP/R4RK1 w - - 0 10", 4, 3894594},
};

struct PgCase
{
    const char* fen;
    uint64_t key;
};
static const PgCase POLYGLOT[] = {
    {"rnbqkbnr/pppppppp/8/8/8/8/PPPPPPPP/RNBQKBNR w KQkq - 0 1", 0x463b96181691fc9cULL},
    {"rnbqkbnr/pppppppp/8/8/4P3/8/PPPP1PPP/RNBQKBNR b KQkq e3 0 1", 0x823c9b50fd114196ULL},
    {"rnbqkbnr/ppp1pppp/8/3p4/4P3/8/PPPP1PPP/RNBQKBNR w KQkq d6 0 2", 0x0756b94461c50fb0ULL},
    {"rnbqkbnr/ppp1pppp/8/3pP3/8/8/PPPP1PPP/RNBQKBNR b KQkq - 0 2", 0x662fafb965db29d4ULL},
    {"rnbqkbnr/ppp1p1pp/8/3pPp2/8/8/PPPP1PPP/RNBQKBNR w KQkq f6 0 3", 0x22a48b5a8e47ff78ULL},
    {"rnbqkbnr/ppp1p1pp/8/3pPp2/8/8/PPPPKPPP/RNBQ1BNR b kq - 0 3", 0x652a607ca3f242c1ULL},
    {"rnbq1bnr/ppp1pkpp/8/3pPp2/8/8/PPPPKPPP/RNBQ1BNR w - - 0 4", 0x00fdd303c946bdd9ULL},
    {"rnbqkbnr/p1pppppp/8/8/PpP4P/8/1P1PPPP1/RNBQKBNR b KQkq c3 0 3", 0x3c8123ea7b067637ULL},
    {"rnbqkbnr/p1pppppp/8/8/P6P/R1p5/1P1PPPP1/1NBQKBNR b Kkq - 0 4", 0x5c3f9b829b279560ULL},
};

struct KpkCase
{
    const char* fen;
    bool win;
    const char* what;
};
static const KpkCase KPK[] = {
    {"4k3/8/4K3/4P3/8/8/8/8 w - - 0 1", true, "king on the 6th in front of the pawn: always wins"},
    {"4k3/8/4K3/4P3/8/8/8/8 b - - 0 1", true, "king on the 6th in front of the pawn: always wins (btm)"},
    {"4k3/8/3K4/4P3/8/8/8/8 b - - 0 1", true, "Kd6 e5 v Ke8 btm: win"},
    {"8/4k3/8/4PK2/8/8/8/8 b - - 0 1", false, "Kf5 e5 v Ke7 btm: Kf7 holds the opposition: draw"},
    {"4k3/4P3/4K3/8/8/8/8/8 b - - 0 1", false, "stalemate: draw"},
    {"4k3/4P3/4K3/8/8/8/8/8 w - - 0 1", true, "Ke6 e7 v Ke8 wtm: Kd6 Kf7 Kd7 wins"},
    {"3k4/8/3K4/3P4/8/8/8/8 w - - 0 1", true, "Kd6 d5 v Kd8 wtm: win"},
    {"3k4/3P4/3K4/8/8/8/8/8 b - - 0 1", false, "stalemate on the d-file"},
    {"k7/8/K7/P7/8/8/8/8 w - - 0 1", false, "rook pawn, defender in the corner: draw"},
    {"k7/8/K7/P7/8/8/8/8 b - - 0 1", false, "rook pawn, defender in the corner: draw (btm)"},
    {"8/8/8/8/8/k7/7P/7K w - - 0 1", true, "h-pawn runs, king far away: win"},
    {"8/8/8/8/7k/8/P7/K7 w - - 0 1", true, "a2 v Kh4 wtm: pawn outruns the king (double step): win"},
    {"8/8/8/8/6k1/8/P7/7K w - - 0 1", true, "a2 v Kg4 wtm: after a4 the king cannot enter the square: win"},
    {"8/8/8/8/5k2/8/P7/7K w - - 0 1", false, "a2 v Kf4 wtm: after a4 Ke5 is inside the square: draw"},
    {"8/8/8/8/3k4/8/P7/7K w - - 0 1", false, "a2 v Kd4 wtm: king catches the pawn: draw"},
    {"8/8/8/K7/8/k7/P7/8 w - - 0 1", false, "black king on a3 blocks a2 and wins it: no double step through a king: draw"},
    {"8/8/8/8/8/K7/P7/k7 w - - 0 1", true, "own king in front on a3, black king a1: win"},
    {"8/1kP5/8/1K6/8/8/8/8 w - - 0 1", false, "c7 attacked by Kb7, c8 not covered: the pawn falls: draw"},
    {"8/2P5/1K6/8/8/8/8/k7 w - - 0 1", true, "free promotion"},
    {"8/8/8/8/8/1k6/p7/K7 w - - 0 1", false, "black pawn a2, white king stalemated on a1: draw (mirror path)"},
    {"8/8/8/8/8/k7/p7/2K5 b - - 0 1", true, "black pawn a2, Ka3 v Kc1 btm: Kb3 and the pawn queens (mirror path)"},
};

static void test_perft(bool full)
{
    for (const PerftCase& c : PERFT)
    {
        uint64_t n = perft(Board::fen(c.fen), c.depth);
        CHECK(n == c.nodes, "perft %s d%d = %llu expected %llu", c.fen, c.depth, (unsigned long long)n,
              (unsigned long long)c.nodes);
    }
    if (full)
        for (const PerftCase& c : PERFT_FULL)
        {
            uint64_t n = perft(Board::fen(c.fen), c.depth);
            CHECK(n == c.nodes, "perft %s d%d = %llu expected %llu", c.fen, c.depth, (unsigned long long)n,
                  (unsigned long long)c.nodes);
        }
}

static void test_fen_and_mirror()
{
    for (const PerftCase& c : PERFT)
    {
        Board b = Board::fen(c.fen);
        CHECK(b.fen() == c.fen, "fen roundtrip %s -> %s", c.fen, b.fen().c_str());
        Board m = b.mirrored();
        CHECK(m.mirrored().fen() == b.fen(), "mirror involution %s", c.fen);
        CHECK(m.legal().size() == b.legal().size(), "mirror move count %s", c.fen);
        std::string why;
        CHECK(b.retro_legal(&why), "retro_legal %s: %s", c.fen, why.c_str());
    }
    std::string why;
    CHECK(!Board::fen("4k3/8/8/8/8/8/8/4KR2 w K - 0 1").retro_legal(&why), "castle right without rook must fail");
    CHECK(!Board::fen("4k3/8/8/8/8/8/8/4K2R b K e3 0 1").retro_legal(&why), "ep without pawn must fail");
    CHECK(!Board::fen("4k3/8/8/8/4P3/8/4P3/4K3 b - e3 0 1").retro_legal(&why), "ep origin occupied must fail");
    CHECK(Board::fen("4k3/8/8/8/4P3/8/8/4K3 b - e3 0 1").retro_legal(&why), "plain ep ok: %s", why.c_str());
    // black was already in check before white's push -> no legal history
    CHECK(!Board::fen("4k3/8/8/8/P7/8/8/4RK2 b - a3 0 1").retro_legal(&why), "ep: side to move was already in check before the push");
    CHECK(!Board::fen("8/8/8/8/k2P3R/8/8/4K3 b - d3 0 1").retro_legal(&why), "ep: rank check existed before d2-d4");
    // check discovered by the push itself is fine
    CHECK(Board::fen("8/8/8/8/1P1k4/8/8/B3K3 b - b3 0 1").retro_legal(&why), "ep: discovered check by the push: %s", why.c_str());
    CHECK(Board::fen("8/8/8/8/8/8/8/K6k w - - 0 1").retro_legal(&why), "bare kings");
    CHECK(!Board::fen("8/8/8/8/8/8/8/Kk6 w - - 0 1").retro_legal(&why), "adjacent kings");
}

static void test_polyglot()
{
    for (const PgCase& c : POLYGLOT)
    {
        uint64_t k = polyglot_key(Board::fen(c.fen));
        CHECK(k == c.key, "polyglot %s = %016llx expected %016llx", c.fen, (unsigned long long)k,
              (unsigned long long)c.key);
    }
    std::set<uint64_t> s(RANDOM64, RANDOM64 + 781);
    CHECK(s.size() == 781, "Random64 distinct");
}

static void test_san()
{
    // every legal move of the perft roots and their children: san_of resolves uniquely to the move
    long n = 0;
    for (const PerftCase& c : PERFT)
    {
        Board b = Board::fen(c.fen);
        std::vector<Board> bs{b};
        for (const Move& m : b.legal()) bs.push_back(b.after(m));
        for (const Board& x : bs)
            for (const Move& m : x.legal())
            {
                std::string s = san_of(x, m);
                std::vector<Move> r = san_resolve(x, s);
                CHECK(r.size() == 1 && r[0] == m, "san %s in %s resolves to %zu moves", s.c_str(), x.fen().c_str(), r.size());
                ++n;
            }
    }
    Board b = Board::fen("r3k2r/8/8/8/8/8/8/R3K2R w KQkq - 0 1");
    CHECK(san_resolve(b, "O-O").size() == 1, "O-O");
    CHECK(san_resolve(b, "O-O-O+").size() == 1, "O-O-O+");
    CHECK(san_resolve(b, "Ra2").size() == 1, "Ra2");
    CHECK(san_resolve(b, "Rxa8+").size() == 1, "Rxa8");
    CHECK(san_resolve(b, "Ra8").empty(), "capture needs x");
    fprintf(stderr, "selftest: %ld SAN round trips\n", n);
}

static void test_mate()
{
    int64_t budget = 1000000;
    Board m1 = Board::fen("6k1/5ppp/8/8/8/8/8/1RK5 w - - 0 1");
    CHECK(can_force_mate(m1, 1, budget) == 1, "back-rank mate in 1");
    CHECK(mating_moves_in_one(m1).size() == 1, "one mating move");
    Board m2 = Board::fen("r5k1/5ppp/8/8/8/8/1R6/1RK5 w - - 0 1");
    budget = 1000000;
    CHECK(can_force_mate(m2, 1, budget) == 0, "no mate in 1");
    budget = 5000000;
    CHECK(can_force_mate(m2, 2, budget) == 1, "mate in 2");
    Board no = Board::fen("8/4k3/p7/P7/PP4KN/8/8/8 w - - 0 1");
    budget = 5000000;
    CHECK(can_force_mate(no, 2, budget) == 0, "no mate in 2 in the C08 example position");
    Board mated = Board::fen("R5k1/5ppp/8/8/8/8/8/2K5 b - - 0 1");
    budget = 1000;
    CHECK(gets_mated(mated, 0, budget) == 1, "already mated");
    Board g1 = Board::fen("6k1/5ppp/8/8/8/8/R7/1RK5 b - - 0 1");
    budget = 5000000;
    CHECK(gets_mated(g1, 2, budget) >= 0, "gets_mated terminates");
    // KQ v K: black to move in the corner, mate next move whatever he does
    Board g2 = Board::fen("k7/8/1K6/8/8/8/8/7Q b - - 0 1");
    budget = 5000000;
    CHECK(gets_mated(g2, 1, budget) == 1, "Ka8 v Kb6 Qh1 btm: mated in 1 (Kb8 Qh8#)");
}

static void test_kpk()
{
    auto t0 = std::chrono::steady_clock::now();
    const KpkTruth& t = KpkTruth::get();
    double s = std::chrono::duration<double>(std::chrono::steady_clock::now() - t0).count();
    fprintf(stderr, "selftest: KPK solved in %.1fs: legal=%ld wins=%ld rounds=%ld; KQK legal=%ld wins=%ld; KRK legal=%ld wins=%ld\n", s,
            t.n_legal, t.n_win, t.rounds, t.q_legal, t.q_win, t.r_legal, t.r_win);
    std::string why;
    CHECK(t.fixed_point_ok(&why), "KPK fixed point: %s", why.c_str());
    for (const KpkCase& c : KPK)
    {
        Board b = Board::fen(c.fen);
        CHECK(t.strong_wins(b) == c.win, "KPK %s expected %s (%s)", c.fen, c.win ? "win" : "draw", c.what);
    }
    // theorem: in KQK / KRK with white to move every legal position is won
    // (counts printed above: black-to-move non-wins are exactly captures/stalemates)
    CHECK(t.n_legal > 300000 && t.n_legal < 400000, "KPK legal count plausible: %ld", t.n_legal);
}

int main(int argc, char** argv)
{
    bool full = argc > 1 && !strcmp(argv[1], "--full");
    test_perft(full);
    test_fen_and_mirror();
    test_polyglot();
    test_san();
    test_mate();
    test_kpk();
    if (failures)
    {
        fprintf(stderr, "SELFTEST: %d failure(s)\n", failures);
        return 1;
    }
    printf("SELFTEST OK\n");
    return 0;
}
