// Game-theoretic truth for K+P vs K by retrograde analysis with the oracle's
// own move generator (all promotions, captures, stalemate, blocked double step).
#ifndef VERIF_ORACLE_KPK_H
#define VERIF_ORACLE_KPK_H
#include "chess.h"
namespace orc
{
struct KpkTruth
{
    // white owns the pawn; index ((stm*64+wk)*64+wp)*64+bk
    std::vector<uint8_t> legal_, win_;
    long n_legal = 0, n_win = 0, rounds = 0;
    long q_legal = 0, q_win = 0, r_legal = 0, r_win = 0;
    static size_t idx(int stm, int wk, int wp, int bk) { return ((size_t(stm) * 64 + wk) * 64 + wp) * 64 + bk; }
    bool legal(int stm, int wk, int wp, int bk) const { return legal_[idx(stm, wk, wp, bk)]; }
    bool white_wins(int stm, int wk, int wp, int bk) const { return win_[idx(stm, wk, wp, bk)]; }
    // any colour: strong = pawn owner
    bool strong_wins(const Board& b) const;
    static const KpkTruth& get();
    bool fixed_point_ok(std::string* why) const;  // self-check
};
}  // namespace orc
#endif
