// Polyglot book key per the published format description, on the oracle board.
#ifndef VERIF_ORACLE_POLYGLOT_SPEC_H
#define VERIF_ORACLE_POLYGLOT_SPEC_H
#include "chess.h"
namespace orc
{
extern const uint64_t RANDOM64[781];
uint64_t polyglot_key(const Board& b);
// components, for finding keys
uint64_t polyglot_piece_part(const Board& b);
uint64_t polyglot_castle_part(const Board& b);
uint64_t polyglot_ep_part(const Board& b);
uint64_t polyglot_turn_part(const Board& b);
}  // namespace orc
#endif
