// Independent rules-of-chess oracle (trusted base of /verif).
// Written from the FIDE rules on a plain 8x8 mailbox; shares no header,
// table or idea (bitboards, pins, magics) with /repo/engine.
#ifndef VERIF_ORACLE_CHESS_H
#define VERIF_ORACLE_CHESS_H

#include <cstdint>
#include <string>
#include <vector>

namespace orc
{
enum : int
{
    EMPTY = 0,
    WP = 1, WN, WB, WR, WQ, WK,
    BP = 7, BN, BB, BR, BQ, BK
};
enum : int { WHITE = 0, BLACK = 1 };
enum : int { PAWN = 1, KNIGHT, BISHOP, ROOK, QUEEN, KING };
enum : int { CK = 1, CQ = 2, Ck = 4, Cq = 8 };

inline int color_of(int pc) { return pc >= BP ? BLACK : WHITE; }
inline int kind_of(int pc) { return pc == EMPTY ? 0 : (pc - 1) % 6 + 1; }
inline int make_pc(int color, int kind) { return kind + 6 * color; }
inline int file_of(int sq) { return sq & 7; }
inline int rank_of(int sq) { return sq >> 3; }
inline int sq_of(int file, int rank) { return rank * 8 + file; }
inline bool on_board(int f, int r) { return f >= 0 && f < 8 && r >= 0 && r < 8; }
std::string sq_name(int sq);

struct Move
{
    int from = 0, to = 0, promo = 0;  // promo: 0 or KNIGHT..QUEEN; castling = king's two-square move
    bool operator==(const Move& o) const { return from == o.from && to == o.to && promo == o.promo; }
    bool operator!=(const Move& o) const { return !(*this == o); }
    bool operator<(const Move& o) const
    {
        if (from != o.from) return from < o.from;
        if (to != o.to) return to < o.to;
        return promo < o.promo;
    }
    std::string uci() const;
    int code() const { return from | to << 6 | promo << 12; }
};

struct Board
{
    int sq[64];
    int stm = WHITE;
    int castle = 0;
    int ep = -1;
    int halfmove = 0;
    int fullmove = 1;

    Board();
    static Board startpos();
    // parse; returns false on syntactically broken input
    static bool from_fen(const std::string& fen, Board& out);
    static Board fen(const std::string& fen);  // aborts on bad input
    std::string fen() const;
    // placement side castling ep (FEN fields 1-4)
    std::string key4() const;
    std::string placement() const;
    std::string pawn_placement() const;

    int king_sq(int color) const;  // -1 if none
    int count(int pc) const;
    bool attacked(int square, int by_color) const;
    bool in_check(int color) const;
    int checkers(int color) const;  // number of pieces giving check to color's king

    void pseudo_legal(std::vector<Move>& out) const;
    std::vector<Move> legal() const;
    bool is_legal(const Move& m) const;
    bool has_legal() const;

    // move classification (facts of the rules, used for keys and C15)
    bool is_castle(const Move& m) const;
    bool is_ep(const Move& m) const;
    bool is_capture(const Move& m) const;  // incl. en passant
    bool is_double_push(const Move& m) const;
    std::string move_class(const Move& m) const;

    // play a (pseudo-)legal move per the rules, updating all six FEN fields
    Board after(const Move& m) const;
    Board after_null() const;  // side flipped, ep cleared, clock+1

    bool insufficient_material() const;  // bare kings or a single minor piece

    Board mirrored() const;  // ranks flipped, colours swapped, stm swapped, rights swapped, ep flipped

    // Appendix A.1 of DESIGN.md
    bool retro_legal(std::string* why = nullptr) const;
};

Move mirror_move(const Move& m);
bool parse_uci_move(const std::string& s, Move& m);

uint64_t perft(const Board& b, int depth);

// SAN resolver: all legal moves that the string designates
std::vector<Move> san_resolve(const Board& b, const std::string& san, std::string* err = nullptr);
// SAN writer by the book (used only in oracle self-test and as a sample)
std::string san_of(const Board& b, const Move& m);

// exhaustive AND/OR mate solver.
// can_force_mate(b, n): side to move can force checkmate within n of its own moves
//   (i.e. within 2n-1 plies).  budget: node budget, decremented; returns
//   1 = yes, 0 = proven no, -1 = budget exhausted
int can_force_mate(const Board& b, int n_moves, int64_t& budget, const std::vector<Move>* hint = nullptr, int hint_idx = 0);
// gets_mated(b, n): side to move is checkmated within n opponent moves against every defence
int gets_mated(const Board& b, int n_moves, int64_t& budget);
std::vector<Move> mating_moves_in_one(const Board& b);

// splitmix / xoshiro RNG, seedable, identical on all platforms
struct Rng
{
    uint64_t s[4];
    explicit Rng(uint64_t seed);
    uint64_t next();
    uint32_t below(uint32_t n) { return n ? uint32_t(next() % n) : 0; }
    bool chance(double p) { return (next() >> 11) * (1.0 / 9007199254740992.0) < p; }
    template <class T> const T& pick(const std::vector<T>& v) { return v[below(uint32_t(v.size()))]; }
};

}  // namespace orc

#endif
