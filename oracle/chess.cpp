#include "chess.h"

#include <algorithm>
#include <cstdio>
#include <cstdlib>
#include <cstring>
#include <sstream>

namespace orc
{
static const int KNIGHT_D[8][2] = {{1, 2}, {2, 1}, {2, -1}, {1, -2}, {-1, -2}, {-2, -1}, {-2, 1}, {-1, 2}};
static const int KING_D[8][2] = {{1, 0}, {1, 1}, {0, 1}, {-1, 1}, {-1, 0}, {-1, -1}, {0, -1}, {1, -1}};
static const int ROOK_D[4][2] = {{1, 0}, {0, 1}, {-1, 0}, {0, -1}};
static const int BISHOP_D[4][2] = {{1, 1}, {-1, 1}, {-1, -1}, {1, -1}};

std::string sq_name(int sq)
{
    std::string s;
    s += char('a' + file_of(sq));
    s += char('1' + rank_of(sq));
    return s;
}

std::string Move::uci() const
{
    std::string s = sq_name(from) + sq_name(to);
    if (promo) s += " nbrq"[promo - 1];
    return s;
}

bool parse_uci_move(const std::string& s, Move& m)
{
    if (s.size() < 4 || s.size() > 5) return false;
    if (s[0] < 'a' || s[0] > 'h' || s[2] < 'a' || s[2] > 'h') return false;
    if (s[1] < '1' || s[1] > '8' || s[3] < '1' || s[3] > '8') return false;
    m.from = sq_of(s[0] - 'a', s[1] - '1');
    m.to = sq_of(s[2] - 'a', s[3] - '1');
    m.promo = 0;
    if (s.size() == 5)
    {
        switch (s[4])
        {
        case 'n': m.promo = KNIGHT; break;
        case 'b': m.promo = BISHOP; break;
        case 'r': m.promo = ROOK; break;
        case 'q': m.promo = QUEEN; break;
        default: return false;
        }
    }
    return true;
}

Board::Board()
{
    for (int i = 0; i < 64; ++i) sq[i] = EMPTY;
}

Board Board::startpos()
{
    return fen("rnbqkbnr/pppppppp/8/8/8/8/PPPPPPPP/RNBQKBNR w KQkq - 0 1");
}

bool Board::from_fen(const std::string& f, Board& b)
{
    b = Board();
    std::istringstream in(f);
    std::string place, side, cas, eps;
    if (!(in >> place >> side)) return false;
    if (!(in >> cas)) cas = "-";
    if (!(in >> eps)) eps = "-";
    int hm = 0, fm = 1;
    if (!(in >> hm)) hm = 0;
    if (!(in >> fm)) fm = 1;
    int r = 7, fl = 0;
    static const std::string pcs = ".PNBRQKpnbrqk";
    for (char c : place)
    {
        if (c == '/')
        {
            if (fl != 8) return false;
            --r;
            fl = 0;
            if (r < 0) return false;
        }
        else if (c >= '1' && c <= '8')
            fl += c - '0';
        else
        {
            size_t p = pcs.find(c);
            if (p == std::string::npos || p == 0 || fl > 7) return false;
            b.sq[sq_of(fl, r)] = int(p);
            ++fl;
        }
        if (fl > 8) return false;
    }
    if (r != 0 || fl != 8) return false;
    if (side == "w")
        b.stm = WHITE;
    else if (side == "b")
        b.stm = BLACK;
    else
        return false;
    b.castle = 0;
    for (char c : cas)
    {
        if (c == 'K') b.castle |= CK;
        else if (c == 'Q') b.castle |= CQ;
        else if (c == 'k') b.castle |= Ck;
        else if (c == 'q') b.castle |= Cq;
        else if (c != '-') return false;
    }
    if (eps == "-")
        b.ep = -1;
    else
    {
        if (eps.size() != 2 || eps[0] < 'a' || eps[0] > 'h' || eps[1] < '1' || eps[1] > '8') return false;
        b.ep = sq_of(eps[0] - 'a', eps[1] - '1');
    }
    b.halfmove = hm;
    b.fullmove = fm;
    return true;
}

Board Board::fen(const std::string& f)
{
    Board b;
    if (!from_fen(f, b))
    {
        fprintf(stderr, "oracle: bad FEN '%s'\n", f.c_str());
        abort();
    }
    return b;
}

std::string Board::placement() const
{
    static const char pcs[] = ".PNBRQKpnbrqk";
    std::string s;
    for (int r = 7; r >= 0; --r)
    {
        int empty = 0;
        for (int f = 0; f < 8; ++f)
        {
            int p = sq[sq_of(f, r)];
            if (p == EMPTY)
                ++empty;
            else
            {
                if (empty) s += char('0' + empty);
                empty = 0;
                s += pcs[p];
            }
        }
        if (empty) s += char('0' + empty);
        if (r) s += '/';
    }
    return s;
}

std::string Board::pawn_placement() const
{
    std::string s;
    for (int i = 0; i < 64; ++i) s += sq[i] == WP ? 'P' : sq[i] == BP ? 'p' : '.';
    return s;
}

std::string Board::key4() const
{
    std::string s = placement();
    s += stm == WHITE ? " w " : " b ";
    if (!castle)
        s += '-';
    else
    {
        if (castle & CK) s += 'K';
        if (castle & CQ) s += 'Q';
        if (castle & Ck) s += 'k';
        if (castle & Cq) s += 'q';
    }
    s += ' ';
    s += ep < 0 ? std::string("-") : sq_name(ep);
    return s;
}

std::string Board::fen() const
{
    return key4() + " " + std::to_string(halfmove) + " " + std::to_string(fullmove);
}

int Board::king_sq(int color) const
{
    int k = make_pc(color, KING);
    for (int i = 0; i < 64; ++i)
        if (sq[i] == k) return i;
    return -1;
}

int Board::count(int pc) const
{
    int n = 0;
    for (int i = 0; i < 64; ++i) n += sq[i] == pc;
    return n;
}

static int attackers_of(const Board& b, int square, int by, bool count_all)
{
    int n = 0;
    int f = file_of(square), r = rank_of(square);
    // pawns: a pawn of colour `by` attacks diagonally forward (white: up)
    int pr = by == WHITE ? r - 1 : r + 1;
    for (int df = -1; df <= 1; df += 2)
        if (on_board(f + df, pr) && b.sq[sq_of(f + df, pr)] == make_pc(by, PAWN))
        {
            ++n;
            if (!count_all) return n;
        }
    for (auto& d : KNIGHT_D)
        if (on_board(f + d[0], r + d[1]) && b.sq[sq_of(f + d[0], r + d[1])] == make_pc(by, KNIGHT))
        {
            ++n;
            if (!count_all) return n;
        }
    for (auto& d : KING_D)
        if (on_board(f + d[0], r + d[1]) && b.sq[sq_of(f + d[0], r + d[1])] == make_pc(by, KING))
        {
            ++n;
            if (!count_all) return n;
        }
    for (auto& d : ROOK_D)
    {
        int cf = f + d[0], cr = r + d[1];
        while (on_board(cf, cr))
        {
            int p = b.sq[sq_of(cf, cr)];
            if (p != EMPTY)
            {
                if (p == make_pc(by, ROOK) || p == make_pc(by, QUEEN))
                {
                    ++n;
                    if (!count_all) return n;
                }
                break;
            }
            cf += d[0];
            cr += d[1];
        }
    }
    for (auto& d : BISHOP_D)
    {
        int cf = f + d[0], cr = r + d[1];
        while (on_board(cf, cr))
        {
            int p = b.sq[sq_of(cf, cr)];
            if (p != EMPTY)
            {
                if (p == make_pc(by, BISHOP) || p == make_pc(by, QUEEN))
                {
                    ++n;
                    if (!count_all) return n;
                }
                break;
            }
            cf += d[0];
            cr += d[1];
        }
    }
    return n;
}

bool Board::attacked(int square, int by) const
{
    return attackers_of(*this, square, by, false) > 0;
}

bool Board::in_check(int color) const
{
    int k = king_sq(color);
    return k >= 0 && attacked(k, 1 - color);
}

int Board::checkers(int color) const
{
    int k = king_sq(color);
    return k < 0 ? 0 : attackers_of(*this, k, 1 - color, true);
}

static void add_pawn_move(std::vector<Move>& out, int from, int to, bool promo)
{
    if (promo)
        for (int k = KNIGHT; k <= QUEEN; ++k) out.push_back(Move{from, to, k});
    else
        out.push_back(Move{from, to, 0});
}

void Board::pseudo_legal(std::vector<Move>& out) const
{
    for (int s = 0; s < 64; ++s)
    {
        int p = sq[s];
        if (p == EMPTY || color_of(p) != stm) continue;
        int f = file_of(s), r = rank_of(s);
        int k = kind_of(p);
        if (k == PAWN)
        {
            int dir = stm == WHITE ? 1 : -1;
            int start = stm == WHITE ? 1 : 6;
            int last = stm == WHITE ? 7 : 0;
            int nr = r + dir;
            if (nr < 0 || nr > 7) continue;
            if (sq[sq_of(f, nr)] == EMPTY)
            {
                add_pawn_move(out, s, sq_of(f, nr), nr == last);
                if (r == start && sq[sq_of(f, r + 2 * dir)] == EMPTY) out.push_back(Move{s, sq_of(f, r + 2 * dir), 0});
            }
            for (int df = -1; df <= 1; df += 2)
            {
                if (!on_board(f + df, nr)) continue;
                int t = sq_of(f + df, nr);
                if (sq[t] != EMPTY && color_of(sq[t]) != stm)
                    add_pawn_move(out, s, t, nr == last);
                else if (t == ep && sq[t] == EMPTY)
                {
                    // en passant: the pawn to be taken stands beside us
                    int victim = sq_of(f + df, r);
                    if (sq[victim] == make_pc(1 - stm, PAWN)) out.push_back(Move{s, t, 0});
                }
            }
        }
        else if (k == KNIGHT || k == KING)
        {
            const int(*D)[2] = k == KNIGHT ? KNIGHT_D : KING_D;
            for (int i = 0; i < 8; ++i)
            {
                int nf = f + D[i][0], nr = r + D[i][1];
                if (!on_board(nf, nr)) continue;
                int t = sq_of(nf, nr);
                if (sq[t] == EMPTY || color_of(sq[t]) != stm) out.push_back(Move{s, t, 0});
            }
            if (k == KING)
            {
                // castling: right, king and rook at home, squares between empty,
                // king not in check, does not pass through or land on an attacked square
                int home = stm == WHITE ? 4 : 60;
                if (s == home)
                {
                    int kr = stm == WHITE ? CK : Ck, qr = stm == WHITE ? CQ : Cq;
                    int rook = make_pc(stm, ROOK);
                    if ((castle & kr) && sq[home + 3] == rook && sq[home + 1] == EMPTY && sq[home + 2] == EMPTY &&
                        !attacked(home, 1 - stm) && !attacked(home + 1, 1 - stm) && !attacked(home + 2, 1 - stm))
                        out.push_back(Move{home, home + 2, 0});
                    if ((castle & qr) && sq[home - 4] == rook && sq[home - 1] == EMPTY && sq[home - 2] == EMPTY &&
                        sq[home - 3] == EMPTY && !attacked(home, 1 - stm) && !attacked(home - 1, 1 - stm) &&
                        !attacked(home - 2, 1 - stm))
                        out.push_back(Move{home, home - 2, 0});
                }
            }
        }
        else
        {
            for (int pass = 0; pass < 2; ++pass)
            {
                if (pass == 0 && k == BISHOP) continue;
                if (pass == 1 && k == ROOK) continue;
                const int(*D)[2] = pass == 0 ? ROOK_D : BISHOP_D;
                for (int i = 0; i < 4; ++i)
                {
                    int cf = f + D[i][0], cr = r + D[i][1];
                    while (on_board(cf, cr))
                    {
                        int t = sq_of(cf, cr);
                        if (sq[t] == EMPTY)
                            out.push_back(Move{s, t, 0});
                        else
                        {
                            if (color_of(sq[t]) != stm) out.push_back(Move{s, t, 0});
                            break;
                        }
                        cf += D[i][0];
                        cr += D[i][1];
                    }
                }
            }
        }
    }
}

bool Board::is_castle(const Move& m) const
{
    return kind_of(sq[m.from]) == KING && std::abs(file_of(m.to) - file_of(m.from)) == 2;
}

bool Board::is_ep(const Move& m) const
{
    return kind_of(sq[m.from]) == PAWN && m.to == ep && file_of(m.from) != file_of(m.to) && sq[m.to] == EMPTY;
}

bool Board::is_capture(const Move& m) const
{
    return sq[m.to] != EMPTY || is_ep(m);
}

bool Board::is_double_push(const Move& m) const
{
    return kind_of(sq[m.from]) == PAWN && std::abs(rank_of(m.to) - rank_of(m.from)) == 2;
}

std::string Board::move_class(const Move& m) const
{
    if (is_castle(m)) return file_of(m.to) == 6 ? "castleK" : "castleQ";
    if (is_ep(m)) return "ep";
    if (m.promo) return sq[m.to] != EMPTY ? "promo-capture" : "promo";
    if (sq[m.to] != EMPTY) return "capture";
    if (is_double_push(m)) return "double-push";
    return "quiet";
}

Board Board::after(const Move& m) const
{
    Board n = *this;
    int p = sq[m.from];
    int k = kind_of(p);
    bool capture = sq[m.to] != EMPTY;
    n.ep = -1;
    if (is_ep(m))
    {
        int victim = sq_of(file_of(m.to), rank_of(m.from));
        n.sq[victim] = EMPTY;
        capture = true;
    }
    n.sq[m.from] = EMPTY;
    n.sq[m.to] = m.promo ? make_pc(stm, m.promo) : p;
    if (is_castle(m))
    {
        int r = rank_of(m.from);
        if (file_of(m.to) == 6)
        {
            n.sq[sq_of(5, r)] = n.sq[sq_of(7, r)];
            n.sq[sq_of(7, r)] = EMPTY;
        }
        else
        {
            n.sq[sq_of(3, r)] = n.sq[sq_of(0, r)];
            n.sq[sq_of(0, r)] = EMPTY;
        }
    }
    // castling rights: lost when the king or the rook leaves home or the rook is taken there
    auto touch = [&](int s) {
        if (s == 4) n.castle &= ~(CK | CQ);
        if (s == 60) n.castle &= ~(Ck | Cq);
        if (s == 7) n.castle &= ~CK;
        if (s == 0) n.castle &= ~CQ;
        if (s == 63) n.castle &= ~Ck;
        if (s == 56) n.castle &= ~Cq;
    };
    touch(m.from);
    touch(m.to);
    if (k == PAWN && std::abs(rank_of(m.to) - rank_of(m.from)) == 2) n.ep = (m.from + m.to) / 2;
    n.halfmove = (k == PAWN || capture) ? 0 : halfmove + 1;
    if (stm == BLACK) n.fullmove = fullmove + 1;
    n.stm = 1 - stm;
    return n;
}

Board Board::after_null() const
{
    Board n = *this;
    n.stm = 1 - stm;
    n.ep = -1;
    n.halfmove = halfmove + 1;
    if (stm == BLACK) n.fullmove = fullmove + 1;
    return n;
}

std::vector<Move> Board::legal() const
{
    std::vector<Move> ps, out;
    ps.reserve(64);
    pseudo_legal(ps);
    out.reserve(ps.size());
    for (const Move& m : ps)
    {
        Board n = after(m);
        if (!n.in_check(stm)) out.push_back(m);
    }
    return out;
}

bool Board::is_legal(const Move& m) const
{
    for (const Move& x : legal())
        if (x == m) return true;
    return false;
}

bool Board::has_legal() const
{
    std::vector<Move> ps;
    pseudo_legal(ps);
    for (const Move& m : ps)
        if (!after(m).in_check(stm)) return true;
    return false;
}

bool Board::insufficient_material() const
{
    int minors = 0;
    for (int i = 0; i < 64; ++i)
    {
        int k = kind_of(sq[i]);
        if (k == PAWN || k == ROOK || k == QUEEN) return false;
        if (k == KNIGHT || k == BISHOP) ++minors;
    }
    return minors <= 1;
}

Board Board::mirrored() const
{
    Board n;
    for (int s = 0; s < 64; ++s)
    {
        int p = sq[s];
        int t = sq_of(file_of(s), 7 - rank_of(s));
        n.sq[t] = p == EMPTY ? EMPTY : make_pc(1 - color_of(p), kind_of(p));
    }
    n.stm = 1 - stm;
    n.castle = 0;
    if (castle & CK) n.castle |= Ck;
    if (castle & CQ) n.castle |= Cq;
    if (castle & Ck) n.castle |= CK;
    if (castle & Cq) n.castle |= CQ;
    n.ep = ep < 0 ? -1 : sq_of(file_of(ep), 7 - rank_of(ep));
    n.halfmove = halfmove;
    n.fullmove = fullmove;
    return n;
}

Move mirror_move(const Move& m)
{
    return Move{sq_of(file_of(m.from), 7 - rank_of(m.from)), sq_of(file_of(m.to), 7 - rank_of(m.to)), m.promo};
}

bool Board::retro_legal(std::string* why) const
{
    auto fail = [&](const char* w) {
        if (why) *why = w;
        return false;
    };
    int cnt[13] = {0};
    for (int i = 0; i < 64; ++i) cnt[sq[i]]++;
    if (cnt[WK] != 1 || cnt[BK] != 1) return fail("kings");
    for (int p = WP; p <= BK; ++p)
    {
        if (kind_of(p) == PAWN && cnt[p] > 8) return fail("pawn-count");
        if (cnt[p] > 10) return fail("piece-count");
    }
    for (int f = 0; f < 8; ++f)
        if (kind_of(sq[sq_of(f, 0)]) == PAWN || kind_of(sq[sq_of(f, 7)]) == PAWN) return fail("pawn-on-back-rank");
    int wk = king_sq(WHITE), bk = king_sq(BLACK);
    if (std::abs(file_of(wk) - file_of(bk)) <= 1 && std::abs(rank_of(wk) - rank_of(bk)) <= 1) return fail("kings-adjacent");
    if (in_check(1 - stm)) return fail("opponent-in-check");
    if ((castle & (CK | CQ)) && sq[4] != WK) return fail("castle-king");
    if ((castle & (Ck | Cq)) && sq[60] != BK) return fail("castle-king");
    if ((castle & CK) && sq[7] != WR) return fail("castle-rook");
    if ((castle & CQ) && sq[0] != WR) return fail("castle-rook");
    if ((castle & Ck) && sq[63] != BR) return fail("castle-rook");
    if ((castle & Cq) && sq[56] != BR) return fail("castle-rook");
    if (ep >= 0)
    {
        int mover = 1 - stm;  // side that just pushed
        int er = rank_of(ep), ef = file_of(ep);
        if (er != (stm == WHITE ? 5 : 2)) return fail("ep-rank");
        if (sq[ep] != EMPTY) return fail("ep-occupied");
        int origin = sq_of(ef, mover == WHITE ? 1 : 6);
        int target = sq_of(ef, mover == WHITE ? 3 : 4);
        if (sq[origin] != EMPTY) return fail("ep-origin-occupied");
        if (sq[target] != make_pc(mover, PAWN)) return fail("ep-no-pawn");
        // position before the push: the side now to move must not have been in check
        Board prev = *this;
        prev.sq[target] = EMPTY;
        prev.sq[origin] = make_pc(mover, PAWN);
        prev.ep = -1;
        prev.stm = mover;
        if (prev.in_check(stm)) return fail("ep-prev-in-check");
    }
    return true;
}

uint64_t perft(const Board& b, int depth)
{
    if (depth == 0) return 1;
    std::vector<Move> ms = b.legal();
    if (depth == 1) return ms.size();
    uint64_t n = 0;
    for (const Move& m : ms) n += perft(b.after(m), depth - 1);
    return n;
}

// ---------------------------------------------------------------- SAN

std::vector<Move> san_resolve(const Board& b, const std::string& san_in, std::string* err)
{
    std::vector<Move> res;
    std::string s = san_in;
    auto bad = [&](const char* e) {
        if (err) *err = e;
        return std::vector<Move>();
    };
    // strip check / mate suffix
    while (!s.empty() && (s.back() == '+' || s.back() == '#')) s.pop_back();
    if (s.empty()) return bad("empty");
    std::vector<Move> legal = b.legal();
    if (s == "O-O" || s == "0-0" || s == "O-O-O" || s == "0-0-0")
    {
        bool kside = s.size() == 3;
        for (const Move& m : legal)
            if (b.is_castle(m) && (file_of(m.to) == 6) == kside) res.push_back(m);
        return res;
    }
    size_t i = 0;
    int kind = PAWN;
    if (std::strchr("NBRQK", s[i]))
    {
        kind = s[i] == 'N' ? KNIGHT : s[i] == 'B' ? BISHOP : s[i] == 'R' ? ROOK : s[i] == 'Q' ? QUEEN : KING;
        ++i;
    }
    // promotion suffix
    int promo = 0;
    size_t end = s.size();
    if (end >= 1 && std::strchr("NBRQ", s[end - 1]) && end - 1 > i)
    {
        char c = s[end - 1];
        promo = c == 'N' ? KNIGHT : c == 'B' ? BISHOP : c == 'R' ? ROOK : QUEEN;
        --end;
        if (end >= 1 && s[end - 1] == '=') --end;
    }
    if (end < i + 2) return bad("short");
    // target square is the last two characters
    char tf = s[end - 2], tr = s[end - 1];
    if (tf < 'a' || tf > 'h' || tr < '1' || tr > '8') return bad("target");
    int to = sq_of(tf - 'a', tr - '1');
    end -= 2;
    bool capture = false;
    if (end > i && s[end - 1] == 'x')
    {
        capture = true;
        --end;
    }
    int ffile = -1, frank = -1;
    for (; i < end; ++i)
    {
        if (s[i] >= 'a' && s[i] <= 'h' && ffile < 0 && frank < 0)
            ffile = s[i] - 'a';
        else if (s[i] >= '1' && s[i] <= '8' && frank < 0)
            frank = s[i] - '1';
        else
            return bad("syntax");
    }
    for (const Move& m : legal)
    {
        if (b.is_castle(m)) continue;
        if (kind_of(b.sq[m.from]) != kind) continue;
        if (m.to != to || m.promo != promo) continue;
        if (ffile >= 0 && file_of(m.from) != ffile) continue;
        if (frank >= 0 && rank_of(m.from) != frank) continue;
        if (b.is_capture(m) != capture) continue;
        res.push_back(m);
    }
    return res;
}

std::string san_of(const Board& b, const Move& m)
{
    std::string s;
    if (b.is_castle(m))
        s = file_of(m.to) == 6 ? "O-O" : "O-O-O";
    else
    {
        int kind = kind_of(b.sq[m.from]);
        if (kind != PAWN)
        {
            s += " NBRQK"[kind - 1];
            bool other = false, same_file = false, same_rank = false;
            for (const Move& x : b.legal())
            {
                if (x.from == m.from || x.to != m.to || kind_of(b.sq[x.from]) != kind || b.is_castle(x)) continue;
                other = true;
                if (file_of(x.from) == file_of(m.from)) same_file = true;
                if (rank_of(x.from) == rank_of(m.from)) same_rank = true;
            }
            if (other)
            {
                if (!same_file)
                    s += char('a' + file_of(m.from));
                else if (!same_rank)
                    s += char('1' + rank_of(m.from));
                else
                    s += sq_name(m.from);
            }
        }
        else if (b.is_capture(m))
            s += char('a' + file_of(m.from));
        if (b.is_capture(m)) s += 'x';
        s += sq_name(m.to);
        if (m.promo)
        {
            s += '=';
            s += " NBRQ"[m.promo - 1];
        }
    }
    Board n = b.after(m);
    if (n.in_check(n.stm)) s += n.has_legal() ? '+' : '#';
    return s;
}

// ---------------------------------------------------------------- mate solver

std::vector<Move> mating_moves_in_one(const Board& b)
{
    std::vector<Move> res;
    for (const Move& m : b.legal())
    {
        Board n = b.after(m);
        if (n.in_check(n.stm) && !n.has_legal()) res.push_back(m);
    }
    return res;
}

int can_force_mate(const Board& b, int n_moves, int64_t& budget, const std::vector<Move>* hint, int hint_idx)
{
    if (n_moves <= 0) return 0;
    if (--budget < 0) return -1;
    std::vector<Move> ms = b.legal();
    // order: hint move, then checking moves, then the rest
    std::vector<std::pair<int, Move>> order;
    order.reserve(ms.size());
    for (const Move& m : ms)
    {
        int pri = 2;
        if (hint && hint_idx < int(hint->size()) && (*hint)[hint_idx] == m)
            pri = 0;
        else
        {
            Board n = b.after(m);
            if (n.in_check(n.stm)) pri = 1;
        }
        order.push_back({pri, m});
    }
    std::stable_sort(order.begin(), order.end(), [](const auto& a, const auto& c) { return a.first < c.first; });
    bool unknown = false;
    for (auto& pm : order)
    {
        const Move& m = pm.second;
        if (n_moves == 1 && pm.first == 2) continue;  // a non-checking move cannot mate
        Board n = b.after(m);
        std::vector<Move> rs = n.legal();
        if (rs.empty())
        {
            if (n.in_check(n.stm)) return 1;
            continue;  // stalemate
        }
        if (n_moves == 1) continue;
        bool all = true;
        for (const Move& r : rs)
        {
            Board nn = n.after(r);
            const std::vector<Move>* h = nullptr;
            if (pm.first == 0 && hint && hint_idx + 1 < int(hint->size()) && (*hint)[hint_idx + 1] == r) h = hint;
            int v = can_force_mate(nn, n_moves - 1, budget, h, hint_idx + 2);
            if (v == 1) continue;
            all = false;
            if (v < 0) unknown = true;
            break;
        }
        if (all) return 1;
        if (budget < 0) return -1;
    }
    return unknown ? -1 : 0;
}

int gets_mated(const Board& b, int n_moves, int64_t& budget)
{
    std::vector<Move> ms = b.legal();
    if (ms.empty()) return b.in_check(b.stm) ? 1 : 0;
    if (n_moves <= 0) return 0;
    bool unknown = false;
    for (const Move& m : ms)
    {
        int v = can_force_mate(b.after(m), n_moves, budget);
        if (v == 0) return 0;
        if (v < 0) unknown = true;
    }
    return unknown ? -1 : 1;
}

// ---------------------------------------------------------------- RNG

static uint64_t splitmix(uint64_t& x)
{
    uint64_t z = (x += 0x9E3779B97F4A7C15ULL);
    z = (z ^ (z >> 30)) * 0xBF58476D1CE4E5B9ULL;
    z = (z ^ (z >> 27)) * 0x94D049BB133111EBULL;
    return z ^ (z >> 31);
}

Rng::Rng(uint64_t seed)
{
    uint64_t x = seed;
    for (auto& v : s) v = splitmix(x);
}

static inline uint64_t rotl(uint64_t x, int k) { return (x << k) | (x >> (64 - k)); }

uint64_t Rng::next()
{
    const uint64_t result = rotl(s[1] * 5, 7) * 9;
    const uint64_t t = s[1] << 17;
    s[2] ^= s[0];
    s[3] ^= s[1];
    s[1] ^= s[2];
    s[0] ^= s[3];
    s[2] ^= t;
    s[3] = rotl(s[3], 45);
    return result;
}

}  // namespace orc
